(* C13 lemmas. *)
From Miller Require Import Base.Bytes Base.Record C13.Model.
From Coq Require Import Permutation.

Lemma beqb_true a b : beqb a b = true <-> a = b.
Proof. destruct (beqb_spec a b); split; congruence. Qed.

Lemma joinc_single x : joinc [x] = x.
Proof. reflexivity. Qed.

(* ------------------------------------------------------------------ specification vocabulary *)
(* the left records as the verb sees them (after --lk) *)
Definition lefts (o : opts) (left : list record) : list record := map (keep_left o) left.
Definition lkey (o : opts) (l : record) : option (list bytes) := key_of (ie o) (lj o) l.
Definition rkey (o : opts) (r : record) : option (list bytes) := key_of (ie o) (rj o) r.
(* "join-field values equal as text": the code compares the comma-joined values *)
Definition keys_match (o : opts) (k : bytes) (l : record) : bool :=
  match lkey o l with Some vl => beqb k (joinc vl) | None => false end.
Definition lefts_for (o : opts) (k : bytes) (L : list record) : list record := filter (keys_match o k) L.

(* what one right record contributes, by the nested-loop reading of the property statement *)
Definition right_out (o : opts) (L : list record) (r : record) : list record :=
  match rkey o r with
  | Some vs =>
    match lefts_for o (joinc vs) L with
    | [] => if ur o then [unpaired_right o r] else []
    | ls => if np o then [] else map (fun l => compose o l r) ls
    end
  | None => if ur o then [unpaired_right o r] else []
  end.

(* ------------------------------------------------------------------ buckets *)
Definition bl (k : bytes) (bs : list lbucket) : list record := match find_bucket k bs with Some ls => ls | None => [] end.
Definition nonempty_buckets (bs : list lbucket) : Prop := Forall (fun b : lbucket => snd (fst b) <> []) bs.

Lemma find_bucket_add k k' l bs :
  find_bucket k (add_left k' l bs) = if beqb k k' then Some (bl k bs ++ [l]) else find_bucket k bs.
Proof.
  unfold bl. induction bs as [|[[k'' ls] p] bs IH]; cbn.
  - destruct (beqb k k'); reflexivity.
  - destruct (beqb_spec k' k'') as [->|Hne]; cbn.
    + destruct (beqb_spec k k'') as [->|Hne']; reflexivity.
    + destruct (beqb_spec k k'') as [->|Hne'].
      * destruct (beqb_spec k'' k'); [congruence|reflexivity].
      * exact IH.
Qed.

Lemma add_left_nonempty k l bs : nonempty_buckets bs -> nonempty_buckets (add_left k l bs).
Proof.
  unfold nonempty_buckets. induction bs as [|[[k'' ls] p] bs IH]; cbn; intros H.
  - constructor; [cbn; discriminate|constructor].
  - inversion H as [|? ? H1 H2]; subst. destruct (beqb k k''); constructor; auto. cbn. destruct ls; discriminate.
Qed.

Lemma find_bucket_nonempty k ls bs : nonempty_buckets bs -> find_bucket k bs = Some ls -> ls <> [].
Proof.
  unfold nonempty_buckets. induction bs as [|[[k'' ls'] p] bs IH]; cbn; intros H; [discriminate|].
  inversion H as [|? ? H1 H2]; subst. destruct (beqb k k''); [intros [= <-]; exact H1|auto].
Qed.

Lemma find_bucket_mark k k' bs : find_bucket k (mark_paired k' bs) = find_bucket k bs.
Proof.
  induction bs as [|[[k'' ls] p] bs IH]; cbn; [reflexivity|].
  destruct (beqb k' k''); cbn; destruct (beqb k k''); auto.
Qed.

(* ------------------------------------------------------------------ ingest *)
Lemma ingest_spec o left : forall bs un,
  nonempty_buckets bs ->
  let '(bs', un') := ingest o left bs un in
  nonempty_buckets bs'
  /\ (forall k, bl k bs' = bl k bs ++ lefts_for o k (lefts o left))
  /\ un' = un ++ filter (fun l => match lkey o l with Some _ => false | None => true end) (lefts o left).
Proof.
  induction left as [|l0 left IH]; intros bs un Hne; cbn [ingest].
  - unfold lefts, lefts_for. cbn. split; [auto|]. split; [intros k|]; now rewrite app_nil_r.
  - change (lefts o (l0 :: left)) with (keep_left o l0 :: lefts o left).
    change (key_of (ie o) (lj o) (keep_left o l0)) with (lkey o (keep_left o l0)).
    assert (LF : forall k, lefts_for o k (keep_left o l0 :: lefts o left)
                 = if keys_match o k (keep_left o l0) then keep_left o l0 :: lefts_for o k (lefts o left) else lefts_for o k (lefts o left))
      by reflexivity.
    cbn [filter]. unfold keys_match in LF.
    destruct (lkey o (keep_left o l0)) as [vs|] eqn:K.
    + specialize (IH (add_left (joinc vs) (keep_left o l0) bs) un (add_left_nonempty _ _ _ Hne)).
      destruct (ingest o left (add_left (joinc vs) (keep_left o l0) bs) un) as [bs' un'].
      destruct IH as (H1 & H2 & H3). split; [auto|]. split; [|exact H3].
      intros k. rewrite H2, LF. unfold bl at 1. rewrite find_bucket_add.
      destruct (beqb k (joinc vs)); [now rewrite <- app_assoc|reflexivity].
    + specialize (IH bs (un ++ [keep_left o l0]) Hne).
      destruct (ingest o left bs (un ++ [keep_left o l0])) as [bs' un'].
      destruct IH as (H1 & H2 & H3). split; [auto|]. split; [intros k; rewrite H2, LF; reflexivity|]. rewrite H3. now rewrite <- app_assoc.
Qed.

(* ------------------------------------------------------------------ the right stream *)
Lemma step_right_out_mark o bs k r : fst (step_right o (mark_paired k bs) r) = fst (step_right o bs r).
Proof.
  unfold step_right. destruct (key_of (ie o) (rj o) r) as [vs|]; [|reflexivity].
  rewrite find_bucket_mark. destruct (find_bucket (joinc vs) bs); reflexivity.
Qed.

Lemma step_right_buckets o bs r : exists k, snd (step_right o bs r) = mark_paired k bs \/ snd (step_right o bs r) = bs.
Proof.
  unfold step_right. destruct (key_of (ie o) (rj o) r) as [vs|]; [|exists []; auto].
  destruct (find_bucket (joinc vs) bs); exists (joinc vs); auto.
Qed.

Lemma run_right_out o right : forall bs,
  fst (run_right o bs right) = flat_map (fun r => fst (step_right o bs r)) right.
Proof.
  induction right as [|r right IH]; intros bs; cbn [run_right flat_map]; [reflexivity|].
  destruct (step_right o bs r) as [e bs'] eqn:S. specialize (IH bs').
  destruct (run_right o bs' right) as [es bs'']. cbn [fst] in *. rewrite IH. f_equal.
  destruct (step_right_buckets o bs r) as (k & [H|H]); rewrite S in H; cbn in H; subst bs'; [|reflexivity].
  clear. induction right as [|r' right IH]; cbn; [reflexivity|]. now rewrite IH, step_right_out_mark.
Qed.

Lemma step_right_is_right_out o left bs un r :
  ingest o left [] [] = (bs, un) -> fst (step_right o bs r) = right_out o (lefts o left) r.
Proof.
  intros E. pose proof (ingest_spec o left [] [] (Forall_nil _)) as S. rewrite E in S. destruct S as (Hne & Hbl & _).
  unfold step_right, right_out, rkey. destruct (key_of (ie o) (rj o) r) as [vs|]; [|reflexivity].
  specialize (Hbl (joinc vs)). unfold bl in Hbl. cbn in Hbl.
  destruct (find_bucket (joinc vs) bs) as [ls|] eqn:F.
  - rewrite <- Hbl. cbn [fst]. pose proof (find_bucket_nonempty _ _ _ Hne F). destruct ls; [congruence|reflexivity].
  - rewrite <- Hbl. reflexivity.
Qed.

Theorem join_unsorted_in_order o left right :
  exists tail,
    join_unsorted o left right = flat_map (right_out o (lefts o left)) right ++ tail
    /\ (ul o = false -> tail = []).
Proof.
  unfold join_unsorted. destruct (ingest o left [] []) as [bs un] eqn:E.
  pose proof (run_right_out o right bs) as R. destruct (run_right o bs right) as [out bs'] eqn:RR. cbn [fst] in R.
  exists (if ul o then left_unpaired_out o bs' un else []). split.
  - f_equal. rewrite R. apply flat_map_ext. intros r. eapply step_right_is_right_out; eauto.
  - intros ->. reflexivity.
Qed.

(* corollaries in the vocabulary of the property statement *)

(* --np removes exactly the paired records, --ur adds exactly the unmatched / key-less right records *)
Lemma right_out_np o L r : np o = true ->
  right_out o L r = if ur o then (match rkey o r with
                                  | Some vs => match lefts_for o (joinc vs) L with [] => [unpaired_right o r] | _ => [] end
                                  | None => [unpaired_right o r] end) else [].
Proof.
  intros H. unfold right_out. rewrite H. destruct (rkey o r) as [vs|]; [|destruct (ur o); reflexivity].
  destruct (lefts_for o (joinc vs) L); destruct (ur o); reflexivity.
Qed.

(* --ignore-empty: a record with an empty join value has no key, so it never pairs (either side) *)
Lemma ignore_empty_no_key names r vs : selected names r = Some vs -> any_empty vs = true -> key_of true names r = None.
Proof. intros H1 H2. unfold key_of. now rewrite H1, H2. Qed.

Lemma ignore_empty_right_never_pairs o L r vs :
  ie o = true -> selected (rj o) r = Some vs -> any_empty vs = true ->
  right_out o L r = if ur o then [unpaired_right o r] else [].
Proof. intros H1 H2 H3. unfold right_out, rkey. rewrite H1. now rewrite (ignore_empty_no_key _ _ _ H2 H3). Qed.

Lemma ignore_empty_left_never_pairs o k L l vs :
  ie o = true -> selected (lj o) l = Some vs -> any_empty vs = true -> ~ In l (lefts_for o k L).
Proof.
  intros H1 H2 H3 Hin. unfold lefts_for in Hin. apply filter_In in Hin. destruct Hin as [_ Hm].
  unfold keys_match, lkey in Hm. rewrite H1 in Hm. rewrite (ignore_empty_no_key _ _ _ H2 H3) in Hm. discriminate.
Qed.

(* a single join field: the bucket key IS the value, so "matches" is equality of the join values as text *)
Lemma keys_match_single o a l v :
  lj o = [a] -> ie o = false -> get a l = Some v -> forall k, keys_match o k l = beqb k v.
Proof. intros H1 H2 H3 k. unfold keys_match, lkey, key_of. rewrite H1, H2. cbn. now rewrite H3. Qed.

(* ------------------------------------------------------------------ composition layout *)
Lemma put_others_keys_incl skip prefix r : forall out k,
  In k (keys (put_others skip prefix r out)) ->
  In k (keys out) \/ exists k0, In k0 (keys r) /\ mem k0 skip = false /\ k = prefix ++ k0.
Proof.
  unfold put_others. induction r as [|[k0 v0] r IH]; intros out k; cbn [fold_left]; [auto|].
  intros H. apply IH in H. destruct H as [H|(k1 & H1 & H2 & H3)].
  - cbn [fst snd] in H. destruct (mem k0 skip) eqn:M; [auto|].
    destruct (has (prefix ++ k0) out) eqn:Hh.
    + rewrite keys_put_present in H by auto. auto.
    + rewrite keys_put_absent in H by auto. apply in_app_or in H. destruct H as [H|[<-|[]]]; [auto|].
      right. exists k0. cbn. auto.
  - right. exists k1. cbn. auto.
Qed.

(* the paired record starts with the join fields under their output names (left values), when the left record has them all
   and the output names are distinct *)
Lemma put_join_fields_prefix ln on l : forall out,
  List.length ln = List.length on ->
  (forall a, In a ln -> has a l = true) ->
  NoDup on -> (forall b, In b on -> ~ In b (keys out)) ->
  put_join_fields ln on l out = out ++ map (fun ab => (snd ab, match get (fst ab) l with Some v => v | None => [] end)) (combine ln on).
Proof.
  revert on. induction ln as [|a ln IH]; intros [|b on] out Hlen Hhas Hnd Hfresh; cbn in *; try discriminate; [now rewrite app_nil_r|].
  inversion Hnd as [|? ? Hb Hnd']; subst.
  assert (Ha : has a l = true) by (apply Hhas; auto). unfold has in Ha. destruct (get a l) as [v|] eqn:G; [|discriminate].
  rewrite IH; auto.
  - assert (P : put b v out = out ++ [(b, v)]).
    { assert (Hni : ~ In b (keys out)) by (apply Hfresh; auto). clear - Hni.
      induction out as [|[k x] out IHo]; cbn; [reflexivity|].
      destruct (beqb_spec b k) as [->|Hne]; [exfalso; apply Hni; left; reflexivity|]. f_equal. apply IHo. intros H; apply Hni; right; auto. }
    rewrite P. now rewrite <- app_assoc.
  - intros b' Hb'. assert (Hni : ~ In b' (keys out)) by (apply Hfresh; auto).
    assert (Hne : b' <> b) by (intros ->; contradiction).
    intros Hin. destruct (has b out) eqn:Hh.
    + rewrite keys_put_present in Hin by auto. contradiction.
    + rewrite keys_put_absent in Hin by auto. apply in_app_or in Hin. destruct Hin as [Hin|[Hin|[]]]; [contradiction|congruence].
Qed.

Lemma flat_map_ext_in_ {A B} (f g : A -> list B) l : (forall x, In x l -> f x = g x) -> flat_map f l = flat_map g l.
Proof. induction l as [|x l IH]; intros H; cbn; [reflexivity|]. rewrite H by (left; auto). rewrite IH; auto. intros; apply H; right; auto. Qed.

(* ------------------------------------------------------------------ the --ul part: exactly the unmatched left records *)
Definition rmatch (o : opts) (r : record) (k : bytes) : bool :=
  match rkey o r with Some vr => beqb (joinc vr) k | None => false end.
Definition hit (o : opts) (right : list record) (k : bytes) : bool := existsb (fun r => rmatch o r k) right.
Definition matched (o : opts) (right : list record) (l : record) : bool :=
  match lkey o l with Some vl => hit o right (joinc vl) | None => false end.

Definition bkey (b : lbucket) : bytes := fst (fst b).
Definition brecs_ (b : lbucket) : list record := snd (fst b).

Lemma add_left_keys k l bs :
  map bkey (add_left k l bs) = if mem k (map bkey bs) then map bkey bs else map bkey bs ++ [k].
Proof.
  induction bs as [|[[k' ls] p] bs IH]; cbn; [reflexivity|].
  destruct (beqb k k') eqn:E; cbn; [reflexivity|]. rewrite IH. unfold mem. destruct (existsb (beqb k) (map bkey bs)); reflexivity.
Qed.

Lemma NoDup_snoc {A} (s : list A) k : NoDup s -> ~ In k s -> NoDup (s ++ [k]).
Proof.
  induction s as [|x s IH]; cbn; intros Hs Hk; [constructor; [tauto|constructor]|].
  inversion Hs as [|? ? Hni Hnd]; subst. constructor; [|apply IH; tauto].
  rewrite in_app_iff. cbn. intros [H|[H|[]]]; [tauto|]. subst. tauto.
Qed.

Lemma add_left_nodup k l bs : NoDup (map bkey bs) -> NoDup (map bkey (add_left k l bs)).
Proof.
  intros H. rewrite add_left_keys. destruct (mem k (map bkey bs)) eqn:E; [auto|].
  apply NoDup_snoc; auto. intros Hin. apply mem_In in Hin. congruence.
Qed.

Lemma add_left_recs_perm k l bs : Permutation (flat_map brecs_ (add_left k l bs)) (l :: flat_map brecs_ bs).
Proof.
  induction bs as [|[[k' ls] p] bs IH]; [apply Permutation_refl|]. cbn [add_left].
  destruct (beqb k k').
  - change (flat_map brecs_ ((k', ls ++ [l], p) :: bs)) with ((ls ++ [l]) ++ flat_map brecs_ bs).
    change (flat_map brecs_ ((k', ls, p) :: bs)) with (ls ++ flat_map brecs_ bs).
    rewrite <- app_assoc. apply Permutation_sym. apply Permutation_middle.
  - change (flat_map brecs_ ((k', ls, p) :: add_left k l bs)) with (ls ++ flat_map brecs_ (add_left k l bs)).
    change (flat_map brecs_ ((k', ls, p) :: bs)) with (ls ++ flat_map brecs_ bs).
    eapply Permutation_trans; [apply Permutation_app_head; exact IH|]. apply Permutation_sym, Permutation_middle.
Qed.

Lemma add_left_flags k l bs : Forall (fun b : lbucket => snd b = false) bs -> Forall (fun b : lbucket => snd b = false) (add_left k l bs).
Proof.
  induction bs as [|[[k' ls] p] bs IH]; cbn; intros H; [constructor; auto|].
  inversion H; subst. destruct (beqb k k'); constructor; auto.
Qed.

Lemma ingest_struct o left : forall bs un,
  NoDup (map bkey bs) -> Forall (fun b : lbucket => snd b = false) bs ->
  let '(bs', un') := ingest o left bs un in
  NoDup (map bkey bs') /\ Forall (fun b : lbucket => snd b = false) bs'
  /\ Permutation (flat_map brecs_ bs' ++ un') (flat_map brecs_ bs ++ un ++ lefts o left).
Proof.
  induction left as [|l0 left IH]; intros bs un Hnd Hfl; cbn [ingest].
  - unfold lefts. cbn. rewrite app_nil_r. auto using Permutation_refl.
  - change (lefts o (l0 :: left)) with (keep_left o l0 :: lefts o left).
    destruct (key_of (ie o) (lj o) (keep_left o l0)) as [vs|].
    + specialize (IH (add_left (joinc vs) (keep_left o l0) bs) un (add_left_nodup _ _ _ Hnd) (add_left_flags _ _ _ Hfl)).
      destruct (ingest o left (add_left (joinc vs) (keep_left o l0) bs) un) as [bs' un'].
      destruct IH as (H1 & H2 & H3). split; [auto|]. split; [auto|].
      eapply Permutation_trans; [exact H3|].
      eapply Permutation_trans; [apply Permutation_app_tail; apply add_left_recs_perm|]. cbn.
      apply Permutation_sym. rewrite app_assoc. eapply Permutation_trans; [apply Permutation_sym, Permutation_middle|].
      constructor. rewrite <- app_assoc. apply Permutation_refl.
    + specialize (IH bs (un ++ [keep_left o l0]) Hnd Hfl).
      destruct (ingest o left bs (un ++ [keep_left o l0])) as [bs' un'].
      destruct IH as (H1 & H2 & H3). split; [auto|]. split; [auto|].
      eapply Permutation_trans; [exact H3|]. rewrite <- !app_assoc. apply Permutation_refl.
Qed.

Lemma find_bucket_in bs b : NoDup (map bkey bs) -> In b bs -> find_bucket (bkey b) bs = Some (brecs_ b).
Proof.
  induction bs as [|[[k' ls] p] bs IH]; cbn; intros Hnd Hin; [contradiction|].
  inversion Hnd as [|? ? Hni Hnd']; subst. destruct Hin as [<-|Hin].
  - unfold bkey, brecs_. cbn. now rewrite beqb_refl.
  - destruct (beqb_spec (bkey b) k') as [E|Hne]; [|auto].
    exfalso. apply Hni. rewrite <- E. apply in_map. exact Hin.
Qed.

Lemma mark_paired_map k bs : NoDup (map bkey bs) ->
  mark_paired k bs = map (fun b : lbucket => (fst b, snd b || beqb k (bkey b))) bs.
Proof.
  induction bs as [|[[k' ls] p] bs IH]; cbn; intros Hnd; [reflexivity|].
  inversion Hnd as [|? ? Hni Hnd']; subst. unfold bkey at 1. cbn.
  destruct (beqb_spec k k') as [->|Hne]; cbn.
  - rewrite orb_true_r. f_equal. symmetry. rewrite <- (map_id bs) at 2. apply map_ext_in. intros [[k2 l2] p2] Hin.
    unfold bkey. cbn. destruct (beqb_spec k' k2) as [->|]; [|now rewrite orb_false_r].
    exfalso. apply Hni. change k2 with (bkey (k2, l2, p2)). apply in_map. exact Hin.
  - rewrite orb_false_r. f_equal. apply IH. auto.
Qed.

Lemma step_right_snd o bs r :
  snd (step_right o bs r) = match rkey o r with Some vs => mark_paired (joinc vs) bs | None => bs end.
Proof.
  unfold step_right, rkey. destruct (key_of (ie o) (rj o) r) as [vs|]; [|reflexivity].
  destruct (find_bucket (joinc vs) bs) eqn:F; [reflexivity|]. cbn.
  clear - F. induction bs as [|[[k' ls] p] bs IH]; cbn in *; [reflexivity|].
  destruct (beqb (joinc vs) k'); [discriminate|]. f_equal. auto.
Qed.

Lemma run_right_flags o right : forall bs, NoDup (map bkey bs) ->
  snd (run_right o bs right) = map (fun b : lbucket => (fst b, snd b || hit o right (bkey b))) bs.
Proof.
  induction right as [|r right IH]; intros bs Hnd; cbn [run_right].
  - cbn. rewrite <- (map_id bs) at 1. apply map_ext. intros [[k l] p]. cbn. now rewrite orb_false_r.
  - pose proof (step_right_snd o bs r) as S. destruct (step_right o bs r) as [e bs'] eqn:E. cbn [snd] in S.
    assert (Hbs' : bs' = map (fun b : lbucket => (fst b, snd b || rmatch o r (bkey b))) bs).
    { rewrite S. unfold rmatch. destruct (rkey o r) as [vs|].
      - apply mark_paired_map; auto.
      - rewrite <- (map_id bs) at 1. apply map_ext. intros [[k l] p]. cbn. now rewrite orb_false_r. }
    assert (Hnd' : NoDup (map bkey bs')).
    { rewrite Hbs', map_map. unfold bkey in *. cbn. exact Hnd. }
    specialize (IH bs' Hnd'). destruct (run_right o bs' right) as [es bs'']. cbn [snd] in *.
    rewrite IH, Hbs', map_map. apply map_ext. intros [[k l] p]. unfold bkey, hit. cbn. now rewrite orb_assoc.
Qed.

Lemma Permutation_filter {A} (p : A -> bool) l l' : Permutation l l' -> Permutation (filter p l) (filter p l').
Proof.
  induction 1; cbn.
  - constructor.
  - destruct (p x); [constructor|]; auto.
  - destruct (p x), (p y); try constructor; try apply Permutation_refl.
  - eapply Permutation_trans; eauto.
Qed.

Lemma filter_flat_map {A B} (p : B -> bool) (f : A -> list B) l : filter p (flat_map f l) = flat_map (fun x => filter p (f x)) l.
Proof. induction l as [|x l IH]; cbn; [reflexivity|]. now rewrite filter_app, IH. Qed.

Lemma filter_all_false {A} (p : A -> bool) l : (forall x, In x l -> p x = false) -> filter p l = [].
Proof. induction l as [|x l IH]; intros H; cbn; [reflexivity|]. rewrite (H x) by (left; auto). apply IH. intros; apply H; right; auto. Qed.
Lemma filter_all_true {A} (p : A -> bool) l : (forall x, In x l -> p x = true) -> filter p l = l.
Proof. induction l as [|x l IH]; intros H; cbn; [reflexivity|]. rewrite (H x) by (left; auto). f_equal. apply IH. intros; apply H; right; auto. Qed.

Theorem join_unsorted_left_tail o left right : ul o = true -> exists tail_src,
  join_unsorted o left right = flat_map (right_out o (lefts o left)) right ++ map (unpaired_left o) tail_src
  /\ Permutation tail_src (filter (fun l => negb (matched o right l)) (lefts o left)).
Proof.
  intros Hul. unfold join_unsorted. destruct (ingest o left [] []) as [bs un] eqn:E.
  pose proof (ingest_spec o left [] [] (Forall_nil _)) as S. rewrite E in S. destruct S as (Hne & Hbl & Hun).
  pose proof (ingest_struct o left [] [] (NoDup_nil _) (Forall_nil _)) as T. rewrite E in T. destruct T as (Hnd & Hfl & Hperm).
  cbn in Hun, Hperm.
  pose proof (run_right_out o right bs) as R. pose proof (run_right_flags o right bs Hnd) as F.
  destruct (run_right o bs right) as [out bs'] eqn:RR. cbn [fst snd] in R, F.
  rewrite Hul. unfold left_unpaired_out.
  exists (flat_map (fun b : lbucket => if snd b then [] else snd (fst b)) bs' ++ un). split.
  - f_equal. rewrite R. apply flat_map_ext. intros r. eapply step_right_is_right_out; eauto.
  - set (p := fun l => negb (matched o right l)).
    assert (A1 : flat_map (fun b : lbucket => if snd b then [] else snd (fst b)) bs' = filter p (flat_map brecs_ bs)).
    { rewrite F, filter_flat_map. rewrite flat_map_concat_map, map_map, <- flat_map_concat_map.
      apply flat_map_ext_in_. intros b Hb. cbn [fst snd].
      rewrite Forall_forall in Hfl. rewrite (Hfl b Hb). cbn [orb].
      pose proof (find_bucket_in bs b Hnd Hb) as Fb. pose proof (Hbl (bkey b)) as Hb2. unfold bl in Hb2. rewrite Fb in Hb2. cbn in Hb2.
      assert (Hall : forall l, In l (brecs_ b) -> matched o right l = hit o right (bkey b)).
      { intros l Hl. rewrite Hb2 in Hl. unfold lefts_for in Hl. apply filter_In in Hl. destruct Hl as [_ Hm].
        unfold keys_match in Hm. unfold matched. destruct (lkey o l) as [vl|]; [|discriminate]. apply beqb_true in Hm. now rewrite Hm. }
      fold (brecs_ b). destruct (hit o right (bkey b)) eqn:Hh.
      - symmetry. apply filter_all_false. intros l Hl. unfold p. now rewrite (Hall l Hl).
      - symmetry. apply filter_all_true. intros l Hl. unfold p. now rewrite (Hall l Hl). }
    assert (A2 : un = filter p un).
    { symmetry. apply filter_all_true. intros l Hl. rewrite Hun in Hl. apply filter_In in Hl. destruct Hl as [_ Hk].
      unfold p, matched. destruct (lkey o l); [discriminate|reflexivity]. }
    rewrite A1, A2, <- filter_app. apply Permutation_filter. exact Hperm.
Qed.

(* ------------------------------------------------------------------ unpaired records: renamed, otherwise unchanged *)
Definition out_name (o : opts) (names : list bytes) (prefix : bytes) (k : bytes) : bytes :=
  match rename_lookup names (oj o) k None with Some n => n | None => prefix ++ k end.

Lemma put_fresh k v (r : record) : ~ In k (keys r) -> put k v r = r ++ [(k, v)].
Proof.
  induction r as [|[k' v'] r IH]; cbn; intros H; [reflexivity|].
  destruct (beqb_spec k k') as [->|Hne]; [exfalso; apply H; left; reflexivity|]. f_equal. apply IH. tauto.
Qed.

Lemma fold_put_renamed (g : bytes -> bytes) (r : record) : forall acc,
  NoDup (keys acc ++ map g (keys r)) ->
  fold_left (fun out kv => put (g (fst kv)) (snd kv) out) r acc = acc ++ map (fun kv => (g (fst kv), snd kv)) r.
Proof.
  induction r as [|[k v] r IH]; intros acc Hnd; cbn [fold_left map]; [now rewrite app_nil_r|].
  cbn [fst snd]. cbn [keys map] in Hnd.
  assert (Hni : ~ In (g k) (keys acc)).
  { apply NoDup_remove_2 in Hnd. intros H. apply Hnd. apply in_or_app. left. exact H. }
  rewrite put_fresh by exact Hni. rewrite IH.
  - now rewrite <- app_assoc.
  - unfold keys in *. rewrite map_app. cbn [map fst]. rewrite <- app_assoc. exact Hnd.
Qed.

Lemma rename_lookup_same names k : forall acc,
  (acc = None \/ acc = Some k) ->
  rename_lookup names names k acc = None \/ rename_lookup names names k acc = Some k.
Proof.
  induction names as [|n names IH]; intros acc H; cbn; [exact H|].
  apply IH. destruct (beqb_spec k n) as [->|]; auto.
Qed.

Lemma lists_eqb_true a b : lists_eqb a b = true -> a = b.
Proof.
  revert b. induction a as [|x a IH]; intros [|y b]; cbn; try discriminate; [reflexivity|].
  intros H. apply andb_true_iff in H. destruct H as [H1 H2]. apply beqb_true in H1. subst. f_equal. auto.
Qed.

Lemma rename_lookup_firstn names : forall outs k acc,
  rename_lookup names outs k acc = rename_lookup names (firstn (List.length names) outs) k acc.
Proof.
  induction names as [|n names IH]; intros [|b outs] k acc; cbn; try reflexivity. apply IH.
Qed.

Lemma fold_left_ext_ {A B} (f g : A -> B -> A) l : (forall a x, f a x = g a x) -> forall a, fold_left f l a = fold_left g l a.
Proof. intros H. induction l as [|x l IH]; intros a; cbn; [reflexivity|]. rewrite H. apply IH. Qed.

Theorem unpaired_spec o names prefix r :
  NoDup (map (out_name o names prefix) (keys r)) ->
  unpaired o names prefix r = map (fun kv => (out_name o names prefix (fst kv), snd kv)) r.
Proof.
  intros Hnd. unfold unpaired.
  destruct (lists_eqb names (firstn (List.length names) (oj o)) && beqb prefix []) eqn:E.
  - (* nothing to rename: every output name is the input name *)
    apply andb_true_iff in E. destruct E as [E1 E2]. apply lists_eqb_true in E1. apply beqb_true in E2. subst prefix.
    rewrite <- (map_id r) at 1. apply map_ext. intros [k v]. cbn. f_equal. unfold out_name.
    rewrite rename_lookup_firstn, <- E1.
    destruct (rename_lookup_same names k None (or_introl eq_refl)) as [H|H]; rewrite H; reflexivity.
  - rewrite (fold_left_ext_ _ (fun out kv => put (out_name o names prefix (fst kv)) (snd kv) out)).
    + rewrite fold_put_renamed by exact Hnd. reflexivity.
    + intros out [k v]. unfold out_name. cbn [fst snd]. destruct (rename_lookup names (oj o) k None); reflexivity.
Qed.
