(* C13 property theorems.  Only statements closed by [exact]; each followed by Print Assumptions.
   All are about the definitions of C13/Model.v that the correspondence harness (C13/Harness.v) runs:
   join_unsorted is the half-streaming (default) mode, join_sorted the bucket-keeper (-s) mode.
   Vocabulary (C13/Proofs.v): lefts o left = the left records after --lk; lkey/rkey = the join-field values of a
   record when it has them all (and, under --ignore-empty, none is empty); lefts_for o k L = the left records whose
   comma-joined join values are k, in left-file order; right_out o L r = what the nested-loop reading of the property
   statement prescribes for right record r: its pairs (compose l r, left-file order), or nothing under --np, or, when
   it matches nothing / has no key, its unpaired form under --ur. *)
From Miller Require Import Base.Bytes Base.Record C13.Model C13.Proofs C13.ProofsSorted C13.Order C13.ProofsMerge.
From Coq Require Import Sorted.
From Coq Require Import Permutation.

(* unsorted join = nested loop, in right-stream order then left-file order, for every flag combination;
   whatever follows is the left-unpaired part and it is empty without --ul *)
Theorem C13_join_refines_nested_loop :
  forall o left right, exists tail,
    join_unsorted o left right = flat_map (right_out o (lefts o left)) right ++ tail
    /\ (ul o = false -> tail = []).
Proof. exact join_unsorted_in_order. Qed.
Print Assumptions C13_join_refines_nested_loop.

(* --np removes exactly the paired records (what remains of a right record's contribution is its unpaired form under --ur) *)
Theorem C13_np_removes_exactly_paired :
  forall o L r, np o = true ->
    right_out o L r = if ur o then (match rkey o r with
                                    | Some vs => match lefts_for o (joinc vs) L with [] => [unpaired_right o r] | _ => [] end
                                    | None => [unpaired_right o r] end) else [].
Proof. exact right_out_np. Qed.
Print Assumptions C13_np_removes_exactly_paired.

(* --ignore-empty never pairs empty keys, on either side *)
Theorem C13_ignore_empty_right_never_pairs :
  forall o L r vs, ie o = true -> selected (rj o) r = Some vs -> any_empty vs = true ->
    right_out o L r = if ur o then [unpaired_right o r] else [].
Proof. exact ignore_empty_right_never_pairs. Qed.
Print Assumptions C13_ignore_empty_right_never_pairs.

Theorem C13_ignore_empty_left_never_pairs :
  forall o k L l vs, ie o = true -> selected (lj o) l = Some vs -> any_empty vs = true -> ~ In l (lefts_for o k L).
Proof. exact ignore_empty_left_never_pairs. Qed.
Print Assumptions C13_ignore_empty_left_never_pairs.

(* with one join field the bucket key is the value itself: records pair iff the join values are equal as text.
   (with several join fields the code compares the values joined by ",": see finding join-key-comma-collision) *)
Theorem C13_single_field_key_is_text_equality :
  forall o a l v, lj o = [a] -> ie o = false -> get a l = Some v -> forall k, keys_match o k l = beqb k v.
Proof. exact keys_match_single. Qed.
Print Assumptions C13_single_field_key_is_text_equality.

(* every left record is accounted for exactly once by the --ul part: the records emitted after the right stream are the
   unpaired forms of a permutation of exactly those left records that no right record matched *)
Theorem C13_left_unpaired_exactly_the_unmatched :
  forall o left right, ul o = true -> exists tail_src,
    join_unsorted o left right = flat_map (right_out o (lefts o left)) right ++ map (unpaired_left o) tail_src
    /\ Permutation tail_src (filter (fun l => negb (matched o right l)) (lefts o left)).
Proof. exact join_unsorted_left_tail. Qed.
Print Assumptions C13_left_unpaired_exactly_the_unmatched.

(* unpaired records (--ul / --ur) are the input record unchanged apart from the renaming of its join fields to the output
   names and the side prefix on the other fields: same values, same order (when the renamed names stay distinct) *)
Theorem C13_unpaired_is_renaming_only :
  forall o names prefix r,
    NoDup (map (out_name o names prefix) (keys r)) ->
    unpaired o names prefix r = map (fun kv => (out_name o names prefix (fst kv), snd kv)) r.
Proof. exact unpaired_spec. Qed.
Print Assumptions C13_unpaired_is_renaming_only.

(* composition layout: the paired record starts with the join fields under their output names carrying the left values
   (all present, output names distinct); every other name comes from a non-join field with its side's prefix *)
Theorem C13_composition_join_fields_first :
  forall ln on l out,
    List.length ln = List.length on -> (forall a, In a ln -> has a l = true) -> NoDup on ->
    (forall b, In b on -> ~ In b (keys out)) ->
    put_join_fields ln on l out
    = out ++ map (fun ab => (snd ab, match get (fst ab) l with Some v => v | None => [] end)) (combine ln on).
Proof. exact put_join_fields_prefix. Qed.
Print Assumptions C13_composition_join_fields_first.

Theorem C13_composition_other_names :
  forall skip prefix r out k,
    In k (keys (put_others skip prefix r out)) ->
    In k (keys out) \/ exists k0, In k0 (keys r) /\ mem k0 skip = false /\ k = prefix ++ k0.
Proof. exact put_others_keys_incl. Qed.
Print Assumptions C13_composition_other_names.

(* sorted-input mode (-s), ALL inputs, sorted or not: the output decomposes, right record by right record, into the
   left-unpaired records flushed at that point followed by records built from that right record only (its unpaired form
   and/or its pairs), plus a final flush; and the left records behind the flushed ones (before renaming), together with
   some rest D (the records of buckets that were paired), are a permutation of the left file: no left record is emitted
   as unpaired twice, none is invented, none is lost without its bucket having been paired.
   _partial: this is the left-record accounting only, but it needs no sortedness and no key-completeness; the equality
   with the default mode on key-sorted inputs is C13_sorted_equals_unsorted_partial below. *)
Theorem C13_sorted_mode_accounts_for_left_records_partial :
  forall o left right, ul o = true ->
  exists (steps : list (list record * list record)) (final D : list record),
    join_sorted o left right
    = flat_map (fun s => map (unpaired_left o) (fst s) ++ snd s) steps ++ map (unpaired_left o) final
    /\ Forall2 (fun s r => from_right o r (snd s)) steps right
    /\ Permutation (lefts o left) (List.concat (map fst steps) ++ final ++ D).
Proof. exact join_sorted_conserves_left. Qed.
Print Assumptions C13_sorted_mode_accounts_for_left_records_partial.

(* sorted-input mode (-s) = default mode as multisets of records, on key-sorted inputs, for every flag combination,
   duplicate keys on both sides and key-less right records.
   left_sorted: the left records are in non-decreasing order of their join values compared field by field as bytes
   (what -s documents); ROK: the same for the keyed right records, plus "the comma-joined key text identifies the key"
   among the records at hand (the default mode buckets by that text: finding join-key-comma-collision).
   _partial: side condition that every left record (after --lk) has all its join fields (non-empty under --ignore-empty);
   key-less LEFT records on sorted input are covered by correspondence and the oracle only. *)
Theorem C13_sorted_equals_unsorted_partial :
  forall o left right,
    (forall l, In l (lefts o left) -> has_keys o l = true) ->
    List.length (lj o) = List.length (rj o) ->
    left_sorted o (lefts o left) ->
    ROK o (lefts o left) right ->
    Permutation (join_sorted o left right) (join_unsorted o left right).
Proof. exact join_sorted_perm_unsorted. Qed.
Print Assumptions C13_sorted_equals_unsorted_partial.

(* with ONE join field the identification condition is automatic: sorted inputs suffice *)
Theorem C13_sorted_equals_unsorted_single_field_partial :
  forall o left right,
    List.length (lj o) = 1%nat -> List.length (rj o) = 1%nat ->
    (forall l, In l (lefts o left) -> has_keys o l = true) ->
    left_sorted o (lefts o left) ->
    StronglySorted (rle o) right ->
    Permutation (join_sorted o left right) (join_unsorted o left right).
Proof. exact join_sorted_perm_unsorted_single. Qed.
Print Assumptions C13_sorted_equals_unsorted_single_field_partial.

Example C13_nonvacuous :
  let o := mkOpts [B "id"] [B "id"] [B "id"] [] [] None false true true false in
  let left := [[(B "id", B "1"); (B "l", B "x")]; [(B "id", B "1"); (B "l", B "z")]; [(B "id", B "2"); (B "l", B "y")]; [(B "l", B "w")]] in
  let right := [[(B "id", B "1"); (B "r", B "p")]; [(B "id", B "3"); (B "r", B "q")]] in
  ul o = true
  /\ join_unsorted o left right
  = [[(B "id", B "1"); (B "l", B "x"); (B "r", B "p")]; [(B "id", B "1"); (B "l", B "z"); (B "r", B "p")];
     [(B "id", B "3"); (B "r", B "q")];
     [(B "id", B "2"); (B "l", B "y")]; [(B "l", B "w")]]
  /\ join_sorted o left right
  = [[(B "id", B "1"); (B "l", B "x"); (B "r", B "p")]; [(B "id", B "1"); (B "l", B "z"); (B "r", B "p")];
     [(B "id", B "2"); (B "l", B "y")]; [(B "l", B "w")];
     [(B "id", B "3"); (B "r", B "q")]]
  /\ filter (fun l => negb (matched o right l)) (lefts o left) = [[(B "id", B "2"); (B "l", B "y")]; [(B "l", B "w")]].
Proof. vm_compute. repeat split; reflexivity. Qed.

(* the hypotheses of the sorted = unsorted theorem are met by a non-trivial input: duplicate keys on both sides,
   an unmatched key on each side, a key-less right record *)
Example C13_nonvacuous_sorted :
  let o := mkOpts [B "id"] [B "id"] [B "id"] [] [] None false true true false in
  let left := [[(B "id", B "1"); (B "l", B "x")]; [(B "id", B "1"); (B "l", B "z")]; [(B "id", B "2"); (B "l", B "y")]] in
  let right := [[(B "id", B "1"); (B "r", B "p")]; [(B "r", B "nokey")]; [(B "id", B "1"); (B "r", B "q")]; [(B "id", B "3"); (B "r", B "s")]] in
  (forall l, In l (lefts o left) -> has_keys o l = true)
  /\ left_sorted o (lefts o left) /\ StronglySorted (rle o) right
  /\ List.length (join_sorted o left right) = 7%nat
  /\ join_sorted o left right <> join_unsorted o left right.
Proof.
  cbv zeta. split; [intros l [<-|[<-|[<-|[]]]]; reflexivity|].
  split; [repeat constructor; unfold kle; vm_compute; discriminate|].
  split; [repeat constructor; unfold rle; vm_compute; try exact I; discriminate|].
  split; vm_compute; [reflexivity|discriminate].
Qed.
