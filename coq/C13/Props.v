(* C13 property theorems.  Only statements closed by [exact]; each followed by Print Assumptions.
   All are about the definitions of C13/Model.v that the correspondence harness (C13/Harness.v) runs:
   join_unsorted is the half-streaming (default) mode, join_sorted the bucket-keeper (-s) mode.
   Vocabulary (C13/Proofs.v): lefts o left = the left records after --lk; lkey/rkey = the join-field values of a
   record when it has them all (and, under --ignore-empty, none is empty); lefts_for o k L = the left records whose
   comma-joined join values are k, in left-file order; right_out o L r = what the nested-loop reading of the property
   statement prescribes for right record r: its pairs (compose l r, left-file order), or nothing under --np, or, when
   it matches nothing / has no key, its unpaired form under --ur. *)
From Miller Require Import Base.Bytes Base.Record C13.Model C13.Proofs C13.ProofsSorted C13.Order C13.ProofsMerge C13.ProofsKeyless C13.ProofsCompose C13.ProofsOnce C13.ProofsGenuine C13.ProofsOrder.
From Coq Require Import Sorted.
From Coq Require Import Permutation.

(* unsorted join = nested loop, in right-stream order then left-file order, for every flag combination;
   whatever follows is the left-unpaired part and it is empty without --ul *)
Theorem C13_join_refines_nested_loop :
  forall o left right, exists tail,
    join_unsorted o left right = flat_map (right_out o (lefts o left)) right ++ tail
    /\ (ul o = false -> tail = []).
Proof. exact join_unsorted_in_order. Qed.
Print Assumptions C13_join_refines_nested_loop.

(* --np removes exactly the paired records (what remains of a right record's contribution is its unpaired form under --ur) *)
Theorem C13_np_removes_exactly_paired :
  forall o L r, np o = true ->
    right_out o L r = if ur o then (match rkey o r with
                                    | Some vs => match lefts_for o (joinc vs) L with [] => [unpaired_right o r] | _ => [] end
                                    | None => [unpaired_right o r] end) else [].
Proof. exact right_out_np. Qed.
Print Assumptions C13_np_removes_exactly_paired.

(* --ignore-empty never pairs empty keys, on either side *)
Theorem C13_ignore_empty_right_never_pairs :
  forall o L r vs, ie o = true -> selected (rj o) r = Some vs -> any_empty vs = true ->
    right_out o L r = if ur o then [unpaired_right o r] else [].
Proof. exact ignore_empty_right_never_pairs. Qed.
Print Assumptions C13_ignore_empty_right_never_pairs.

Theorem C13_ignore_empty_left_never_pairs :
  forall o k L l vs, ie o = true -> selected (lj o) l = Some vs -> any_empty vs = true -> ~ In l (lefts_for o k L).
Proof. exact ignore_empty_left_never_pairs. Qed.
Print Assumptions C13_ignore_empty_left_never_pairs.

(* with one join field the bucket key is the value itself: records pair iff the join values are equal as text.
   (with several join fields the code compares the values joined by ",": see finding join-key-comma-collision) *)
Theorem C13_single_field_key_is_text_equality :
  forall o a l v, lj o = [a] -> ie o = false -> get a l = Some v -> forall k, keys_match o k l = beqb k v.
Proof. exact keys_match_single. Qed.
Print Assumptions C13_single_field_key_is_text_equality.

(* every left record is accounted for exactly once by the --ul part: the records emitted after the right stream are the
   unpaired forms of a permutation of exactly those left records that no right record matched *)
Theorem C13_left_unpaired_exactly_the_unmatched :
  forall o left right, ul o = true -> exists tail_src,
    join_unsorted o left right = flat_map (right_out o (lefts o left)) right ++ map (unpaired_left o) tail_src
    /\ Permutation tail_src (filter (fun l => negb (matched o right l)) (lefts o left)).
Proof. exact join_unsorted_left_tail. Qed.
Print Assumptions C13_left_unpaired_exactly_the_unmatched.

(* ... and their exact ORDER (all eight --np/--ul/--ur combinations; for --ul false the part is empty, theorem 1): after the
   right stream's output come the left records of every bucket that no right record hit, bucket by bucket in
   first-appearance order of the bucket keys in the left file and in left-file order within a bucket, then the key-less
   left records in left-file order.  (Not plain left-file order: leftBucketsByJoinFieldValues is an ordered map.) *)
Theorem C13_unsorted_exact_emit_order :
  forall o left right, ul o = true ->
    join_unsorted o left right =
      flat_map (right_out o (lefts o left)) right
      ++ map (unpaired_left o)
           (flat_map (fun k => if hit o right k then [] else lefts_for o k (lefts o left)) (bucket_keys o (lefts o left))
            ++ filter (lacks_key o) (lefts o left)).
Proof. exact join_unsorted_exact_order. Qed.
Print Assumptions C13_unsorted_exact_emit_order.

(* unpaired records (--ul / --ur) are the input record unchanged apart from the renaming of its join fields to the output
   names and the side prefix on the other fields: same values, same order (when the renamed names stay distinct) *)
Theorem C13_unpaired_is_renaming_only :
  forall o names prefix r,
    NoDup (map (out_name o names prefix) (keys r)) ->
    unpaired o names prefix r = map (fun kv => (out_name o names prefix (fst kv), snd kv)) r.
Proof. exact unpaired_spec. Qed.
Print Assumptions C13_unpaired_is_renaming_only.

(* composition layout: the paired record starts with the join fields under their output names carrying the left values
   (all present, output names distinct); every other name comes from a non-join field with its side's prefix *)
Theorem C13_composition_join_fields_first :
  forall ln on l out,
    List.length ln = List.length on -> (forall a, In a ln -> has a l = true) -> NoDup on ->
    (forall b, In b on -> ~ In b (keys out)) ->
    put_join_fields ln on l out
    = out ++ map (fun ab => (snd ab, match get (fst ab) l with Some v => v | None => [] end)) (combine ln on).
Proof. exact put_join_fields_prefix. Qed.
Print Assumptions C13_composition_join_fields_first.

Theorem C13_composition_other_names :
  forall skip prefix r out k,
    In k (keys (put_others skip prefix r out)) ->
    In k (keys out) \/ exists k0, In k0 (keys r) /\ mem k0 skip = false /\ k = prefix ++ k0.
Proof. exact put_others_keys_incl. Qed.
Print Assumptions C13_composition_other_names.

(* sorted-input mode (-s), ALL inputs, sorted or NOT: every record is accounted for exactly once.
   The output is, right record by right record, [the left records flushed as unpaired at that point] followed by
   EITHER the right record's unpaired form (under --ur) OR its pairs with one whole non-empty bucket (unless --np)
   -- emit; then the final flush.  The left file is, as a multiset, the disjoint union of everything flushed as unpaired
   and of the buckets Bs; every bucket of Bs is non-empty and was paired with at least one right record, and every
   bucket a right record was paired with is in Bs.  Hence no left record is lost, none is flushed twice, none is both
   paired and flushed; a right record is never both unpaired and paired.  On unsorted input -s pairs fewer records than
   the default mode ("else not all records will be paired", mlr join --help) -- but this accounting still holds.
   genuine: the pairs are real matches -- every left record of the bucket a right record is paired with has exactly
   that right record's join values, field by field (one step per right record: Forall2).
   (Buckets are compared as lists of records: two buckets with identical contents are not told apart.) *)
Theorem C13_sorted_mode_exactly_once_on_all_inputs :
  forall o left right, ul o = true -> List.length (lj o) = List.length (rj o) ->
  exists (steps : list (list record * list record)) (final : list record) (Bs : list (list record)),
    join_sorted o left right = emit_all o steps right ++ map (unpaired_left o) final
    /\ Forall2 (genuine o) steps right
    /\ Permutation (lefts o left) (List.concat (map fst steps) ++ final ++ List.concat Bs)
    /\ (forall B, In B Bs -> B <> [] /\ In B (map snd steps))
    /\ (forall s, In s steps -> snd s <> [] -> In (snd s) Bs).
Proof. exact join_sorted_exactly_once_genuine. Qed.
Print Assumptions C13_sorted_mode_exactly_once_on_all_inputs.

(* non-vacuity on an UNSORTED input: the left key 1 comes back after key 2; the second run of key 1 is never paired, the
   default mode would pair it; all 4 left and 3 right records appear exactly once as paired or unpaired *)
Example C13_exactly_once_unsorted_nonvacuous :
  let o := mkOpts [B "id"] [B "id"] [B "id"] [] [] None false true true false in
  let left := [[(B "id", B "1"); (B "l", B "a")]; [(B "id", B "2"); (B "l", B "b")]; [(B "id", B "1"); (B "l", B "c")]; [(B "l", B "d")]] in
  let right := [[(B "id", B "1"); (B "r", B "p")]; [(B "id", B "2"); (B "r", B "q")]; [(B "id", B "1"); (B "r", B "s")]] in
  join_sorted o left right
  = [[(B "id", B "1"); (B "l", B "a"); (B "r", B "p")];
     [(B "id", B "2"); (B "l", B "b"); (B "r", B "q")];
     [(B "id", B "1"); (B "r", B "s")];
     [(B "id", B "1"); (B "l", B "c")]; [(B "l", B "d")]]
  /\ List.length (join_unsorted o left right) = 6%nat.
Proof. vm_compute. split; reflexivity. Qed.

(* sorted-input mode (-s) = default mode as multisets of records, on key-sorted inputs, for every flag combination
   (--np/--ul/--ur/--ignore-empty/--lk/--lp/--rp/-l/-r/-j), duplicate keys on both sides, and key-less records ANYWHERE
   on both sides (records lacking a join field, or holding an empty one under --ignore-empty: -s honours it).
   keyed o L: the left records (after --lk) that have all join fields; left_sorted: in non-decreasing order of their join
   values compared field by field as bytes (what -s documents); ROK: the same for the keyed right records, plus
   "the comma-joined key text identifies the key" among the records at hand -- the default mode buckets by that text
   (finding join-key-comma-collision), and without it the two modes DO differ: C13_sorted_equals_unsorted_needs_key_identification_refuted. *)
Theorem C13_sorted_equals_unsorted :
  forall o left right,
    List.length (lj o) = List.length (rj o) ->
    left_sorted o (keyed o (lefts o left)) ->
    ROK o (keyed o (lefts o left)) right ->
    Permutation (join_sorted o left right) (join_unsorted o left right).
Proof. exact join_sorted_perm_unsorted_full. Qed.
Print Assumptions C13_sorted_equals_unsorted.

(* with ONE join field the identification condition is automatic: sorted inputs suffice *)
Theorem C13_sorted_equals_unsorted_single_field :
  forall o left right,
    List.length (lj o) = 1%nat -> List.length (rj o) = 1%nat ->
    left_sorted o (keyed o (lefts o left)) ->
    StronglySorted (rle o) right ->
    Permutation (join_sorted o left right) (join_unsorted o left right).
Proof. exact join_sorted_perm_unsorted_full_single. Qed.
Print Assumptions C13_sorted_equals_unsorted_single_field.

(* the mechanism: the -s output on a left file is, as a multiset, the -s output on its keyed records plus (under --ul)
   the unpaired forms of its key-less records, for ALL inputs sorted or not (the same holds of the default mode, as an
   equation of lists) *)
Theorem C13_sorted_mode_keyless_left_records_only_add_unpaired :
  forall o left right,
    Permutation (join_sorted o left right) (join_sorted o (keyed_left o left) right ++ ulmap o (keyless o (lefts o left)))
    /\ join_unsorted o left right = join_unsorted o (keyed_left o left) right ++ ulmap o (keyless o (lefts o left)).
Proof. exact keyless_both_modes. Qed.
Print Assumptions C13_sorted_mode_keyless_left_records_only_add_unpaired.

(* without the identification condition the statement is false of the code: two join fields whose values contain the
   internal "," joiner (sorted trivially: one record a side); the default mode pairs them, -s does not *)
Theorem C13_sorted_equals_unsorted_needs_key_identification_refuted :
  exists o left right,
    List.length (lj o) = List.length (rj o) /\ left_sorted o (keyed o (lefts o left)) /\ StronglySorted (rle o) right
    /\ ~ Permutation (join_sorted o left right) (join_unsorted o left right).
Proof. exact sorted_vs_unsorted_comma_witness. Qed.
Print Assumptions C13_sorted_equals_unsorted_needs_key_identification_refuted.

(* composition layout as a list equation, ALL options and records: the paired record is the candidate list
   (join fields under the -j names with the left values) ++ (left non-join fields, left order, --lp prefixed)
   ++ (right non-join fields, right order, --rp prefixed) written field by field into an empty record (PutCopy) *)
Theorem C13_composition_layout :
  forall o l r, compose o l r = put_all (cands o l r) [].
Proof. exact compose_layout. Qed.
Print Assumptions C13_composition_layout.

(* ... which IS the candidate list when its names are distinct ... *)
Theorem C13_composition_layout_distinct_names :
  forall o l r, NoDup (map fst (cands o l r)) -> compose o l r = cands o l r.
Proof. exact compose_layout_distinct. Qed.
Print Assumptions C13_composition_layout_distinct_names.

(* ... and in general has the candidates' names in first-occurrence order, each with its LAST candidate value (a colliding
   right field overwrites the value at the left field's position) *)
Theorem C13_composition_layout_collisions :
  forall o l r,
    keys (compose o l r) = fresh_keys [] (cands o l r)
    /\ forall k, get k (compose o l r) = get k (rev (cands o l r)).
Proof. exact compose_names_and_values. Qed.
Print Assumptions C13_composition_layout_collisions.

(* the join part is the -j names zipped with the left join values whenever the left record has them all (it has when paired) *)
Theorem C13_composition_join_part :
  forall ln on l vs, List.length ln = List.length on -> selected ln l = Some vs -> join_cands ln on l = combine on vs.
Proof. exact join_cands_all. Qed.
Print Assumptions C13_composition_join_part.

(* non-vacuity: heterogeneous names -l/-r/-j, prefixes, and a collision without prefixes *)
Example C13_composition_nonvacuous :
  let o1 := mkOpts [B "lid"] [B "rid"] [B "id"] (B "L_") (B "R_") None false false false false in
  let o2 := mkOpts [B "lid"] [B "rid"] [B "id"] [] [] None false false false false in
  let l := [(B "a", B "1"); (B "lid", B "7"); (B "b", B "2")] in
  let r := [(B "rid", B "7"); (B "a", B "3"); (B "c", B "4")] in
  NoDup (map fst (cands o1 l r))
  /\ compose o1 l r = [(B "id", B "7"); (B "L_a", B "1"); (B "L_b", B "2"); (B "R_a", B "3"); (B "R_c", B "4")]
  /\ ~ NoDup (map fst (cands o2 l r))
  /\ compose o2 l r = [(B "id", B "7"); (B "a", B "3"); (B "b", B "2"); (B "c", B "4")].
Proof.
  cbv zeta. split; [apply nodupb_NoDup; vm_compute; reflexivity|]. split; [vm_compute; reflexivity|].
  split; [rewrite <- nodupb_NoDup; vm_compute; discriminate|vm_compute; reflexivity].
Qed.

Example C13_nonvacuous :
  let o := mkOpts [B "id"] [B "id"] [B "id"] [] [] None false true true false in
  let left := [[(B "id", B "1"); (B "l", B "x")]; [(B "id", B "1"); (B "l", B "z")]; [(B "id", B "2"); (B "l", B "y")]; [(B "l", B "w")]] in
  let right := [[(B "id", B "1"); (B "r", B "p")]; [(B "id", B "3"); (B "r", B "q")]] in
  ul o = true
  /\ join_unsorted o left right
  = [[(B "id", B "1"); (B "l", B "x"); (B "r", B "p")]; [(B "id", B "1"); (B "l", B "z"); (B "r", B "p")];
     [(B "id", B "3"); (B "r", B "q")];
     [(B "id", B "2"); (B "l", B "y")]; [(B "l", B "w")]]
  /\ join_sorted o left right
  = [[(B "id", B "1"); (B "l", B "x"); (B "r", B "p")]; [(B "id", B "1"); (B "l", B "z"); (B "r", B "p")];
     [(B "id", B "2"); (B "l", B "y")]; [(B "l", B "w")];
     [(B "id", B "3"); (B "r", B "q")]]
  /\ filter (fun l => negb (matched o right l)) (lefts o left) = [[(B "id", B "2"); (B "l", B "y")]; [(B "l", B "w")]].
Proof. vm_compute. repeat split; reflexivity. Qed.

(* the hypotheses of the sorted = unsorted theorem are met by a non-trivial input: duplicate keys on both sides,
   an unmatched key on each side, a key-less right record, a key-less LEFT record in the middle of the file and one whose
   key is empty under --ignore-empty *)
Example C13_nonvacuous_sorted :
  let o := mkOpts [B "id"] [B "id"] [B "id"] [] [] None false true true true in
  let left := [[(B "id", B "1"); (B "l", B "x")]; [(B "l", B "nokey")]; [(B "id", B "1"); (B "l", B "z")]; [(B "id", B ""); (B "l", B "void")];
               [(B "id", B "2"); (B "l", B "y")]] in
  let right := [[(B "id", B "1"); (B "r", B "p")]; [(B "r", B "nokey")]; [(B "id", B "1"); (B "r", B "q")]; [(B "id", B "3"); (B "r", B "s")]] in
  left_sorted o (keyed o (lefts o left)) /\ StronglySorted (rle o) right
  /\ List.length (keyless o (lefts o left)) = 2%nat
  /\ List.length (join_sorted o left right) = 9%nat
  /\ join_sorted o left right <> join_unsorted o left right.
Proof.
  cbv zeta. split; [vm_compute; repeat constructor; unfold kle; vm_compute; discriminate|].
  split; [repeat constructor; unfold rle; vm_compute; try exact I; discriminate|].
  split; [vm_compute; reflexivity|]. split; vm_compute; [reflexivity|discriminate].
Qed.
