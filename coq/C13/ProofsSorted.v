(* C13, sorted-input mode: the bucket keeper neither loses nor duplicates left records (conservation), for ALL inputs
   (sorted or not).  This is the sorted-mode half of "accounts for every record once"; equality with the default mode
   on sorted inputs is not proved (correspondence + oracle). *)
From Miller Require Import Base.Bytes Base.Record C13.Model C13.Proofs.
From Coq Require Import Permutation.

Definition opt_list (p : option record) : list record := match p with Some x => [x] | None => [] end.
(* every left record the keeper still holds *)
Definition pool (k : keeper) : list record := lun k ++ brecs k ++ opt_list (peek k) ++ rem k.
(* what a bucket change throws away: the records of a bucket that was paired *)
Definition paired_part (k : keeper) : list record := if bpaired k then brecs k else [].

Ltac perm_solve :=
  repeat rewrite <- app_assoc; cbn [app];
  repeat first [ apply Permutation_refl | apply Permutation_app_head | apply perm_skip ].

Lemma perm_rot3 {A} (a b c : list A) : Permutation (a ++ b ++ c) (b ++ c ++ a).
Proof. rewrite (app_assoc b c a). apply Permutation_app_comm. Qed.

Lemma skip_keyless_perm o rm : forall un p rm' un',
  skip_keyless o rm un = (p, rm', un') -> Permutation (un' ++ opt_list p ++ rm') (un ++ rm).
Proof.
  induction rm as [|q rm IH]; intros un p rm' un' H; cbn [skip_keyless] in H.
  - injection H as <- <- <-. cbn. apply Permutation_refl.
  - destruct (has_keys o q).
    + injection H as <- <- <-. cbn. apply Permutation_refl.
    + apply IH in H. eapply Permutation_trans; [exact H|]. rewrite <- app_assoc. apply Permutation_refl.
Qed.

Lemma fill_loop_perm o bv rm : forall recs un pk rm' recs' un' eof,
  fill_loop o bv rm recs un = (pk, rm', recs', un', eof) ->
  Permutation (un' ++ recs' ++ opt_list pk ++ rm') (un ++ recs ++ rm).
Proof.
  induction rm as [|q rm IH]; intros recs un pk rm' recs' un' eof H; cbn [fill_loop] in H.
  - injection H as <- <- <- <- <-. cbn. apply Permutation_refl.
  - destruct (has_keys o q).
    + destruct (cmp_lex bv (vals_of o q)).
      * apply IH in H. eapply Permutation_trans; [exact H|]. rewrite <- app_assoc. apply Permutation_refl.
      * injection H as <- <- <- <- <-. cbn. apply Permutation_refl.
      * injection H as <- <- <- <- <-. cbn. apply Permutation_refl.
    + apply IH in H. eapply Permutation_trans; [exact H|]. rewrite <- app_assoc. cbn [app].
      apply Permutation_app_head. apply Permutation_middle.
Qed.

Lemma advance_perm fuel o rv : forall p rm un p' rm' un' eof,
  advance fuel o rv p rm un = (p', rm', un', eof) ->
  Permutation (un' ++ opt_list p' ++ rm') (un ++ p :: rm).
Proof.
  induction fuel as [|fuel IH]; intros p rm un p' rm' un' eof H; cbn [advance] in H.
  - injection H as <- <- <- <-. cbn. apply Permutation_refl.
  - destruct (skip_keyless o rm (un ++ [p])) as [[q rm1] un1] eqn:S. apply skip_keyless_perm in S.
    assert (S' : Permutation (un1 ++ opt_list q ++ rm1) (un ++ p :: rm)).
    { eapply Permutation_trans; [exact S|]. rewrite <- app_assoc. apply Permutation_refl. }
    destruct q as [q|].
    + destruct (cmp_lex (vals_of o q) rv).
      * injection H as <- <- <- <-. exact S'.
      * apply IH in H. eapply Permutation_trans; [exact H|]. exact S'.
      * injection H as <- <- <- <-. exact S'.
    + injection H as <- <- <- <-. exact S'.
Qed.

Lemma prepare_first_perm o k : peek k = None -> Permutation (pool (prepare_first o k)) (pool k).
Proof.
  intros Hp. unfold prepare_first. destruct (skip_keyless o (rem k) (lun k)) as [[p rm] un] eqn:S.
  apply skip_keyless_perm in S. unfold pool. cbn. rewrite Hp. cbn.
  eapply Permutation_trans; [|apply Permutation_app_head; apply Permutation_sym; apply Permutation_app_head; apply Permutation_refl].
  (* move brecs across *)
  apply Permutation_trans with (brecs k ++ un ++ opt_list p ++ rm).
  - rewrite !app_assoc. apply Permutation_app_tail. apply Permutation_app_tail. apply Permutation_app_comm.
  - apply Permutation_trans with (brecs k ++ lun k ++ rem k); [apply Permutation_app_head; exact S|].
    rewrite !app_assoc. apply Permutation_app_tail. apply Permutation_app_comm.
Qed.

Lemma fill_next_perm o k : Permutation (pool (fill_next o k)) (pool k).
Proof.
  unfold fill_next. destruct (peek k) as [p|] eqn:Hp; [|apply Permutation_refl].
  destruct (fill_loop o (vals_of o p) (rem k) (brecs k ++ [p]) (lun k)) as [[[[pk rm] recs] un] eof] eqn:F.
  apply fill_loop_perm in F. unfold pool. cbn. rewrite Hp. cbn.
  eapply Permutation_trans; [exact F|]. rewrite <- !app_assoc. apply Permutation_refl.
Qed.

Lemma maybe_fill_perm o k : Permutation (pool (maybe_fill o k)) (pool k).
Proof. unfold maybe_fill. destruct (peek k); [apply fill_next_perm|apply Permutation_refl]. Qed.

Lemma paired_split k : Permutation (lun k ++ brecs k) ((if bpaired k then lun k else lun k ++ brecs k) ++ paired_part k).
Proof. unfold paired_part. destruct (bpaired k); [apply Permutation_refl|now rewrite app_nil_r]. Qed.

Lemma prepare_new_perm o rv k : Permutation (pool k) (pool (prepare_new o rv k) ++ paired_part k).
Proof.
  unfold prepare_new. set (un := if bpaired k then lun k else lun k ++ brecs k).
  assert (B : Permutation (pool k) ((un ++ opt_list (peek k) ++ rem k) ++ paired_part k)).
  { unfold pool. rewrite app_assoc. eapply Permutation_trans; [apply Permutation_app_tail; apply paired_split|]. fold un.
    rewrite <- !app_assoc. apply Permutation_app_head. apply perm_rot3. }
  destruct (peek k) as [p|] eqn:Hp.
  - destruct (cmp_lex (vals_of o p) rv).
    + unfold pool at 2. cbn. exact B.
    + destruct (advance (S (List.length (rem k))) o rv p (rem k) un) as [[[p' rm'] un'] eof] eqn:A.
      apply advance_perm in A. unfold pool at 2. cbn.
      eapply Permutation_trans; [exact B|]. apply Permutation_app_tail. apply Permutation_sym. exact A.
    + unfold pool at 2. cbn. exact B.
  - unfold pool at 2. cbn. exact B.
Qed.

Lemma mark_remaining_perm k : Permutation (pool k) (pool (mark_remaining k) ++ paired_part k).
Proof.
  unfold mark_remaining, pool. cbn [lun brecs peek rem opt_list app]. rewrite !app_nil_r.
  set (un := if bpaired k then lun k else lun k ++ brecs k).
  assert (B : forall tl, Permutation (lun k ++ brecs k ++ tl) ((un ++ tl) ++ paired_part k)).
  { intros tl. rewrite app_assoc. eapply Permutation_trans; [apply Permutation_app_tail; apply paired_split|]. fold un.
    rewrite <- !app_assoc. apply Permutation_app_head. apply Permutation_app_comm. }
  destruct (peek k) as [p|]; cbn [opt_list app].
  - rewrite <- (app_assoc un [p] (rem k)). apply (B ([p] ++ rem k)).
  - apply B.
Qed.

(* the keeper invariant: the cached state is the computed one, and state 0 (prefill) has no peek record *)
Definition Inv (k : keeper) : Prop :=
  kstate k = compute_state k /\ (bvals k = None -> leof k = false -> peek k = None).

Lemma Inv_state0 k : Inv k -> Nat.eqb (kstate k) 0 = true -> peek k = None.
Proof.
  intros [H1 H2] E. apply PeanoNat.Nat.eqb_eq in E. rewrite H1 in E. unfold compute_state in E.
  destruct (bvals k); [destruct (peek k); discriminate|]. destruct (leof k); [discriminate|]. auto.
Qed.

Lemma fill_next_bvals o k p : peek k = Some p -> bvals (fill_next o k) <> None.
Proof.
  intros Hp. unfold fill_next. rewrite Hp.
  destruct (fill_loop o (vals_of o p) (rem k) (brecs k ++ [p]) (lun k)) as [[[[pk rm] recs] un] eof]. cbn. discriminate.
Qed.

Definition Inv2 (k : keeper) : Prop := bvals k = None -> leof k = false -> peek k = None.

Lemma maybe_fill_inv2 o k : Inv2 (maybe_fill o k).
Proof.
  unfold maybe_fill. destruct (peek k) as [p|] eqn:Hp.
  - intros H. exfalso. eapply fill_next_bvals; eauto.
  - intros _ _. exact Hp.
Qed.

Lemma set_state_Inv k : Inv2 k -> Inv (set_state k).
Proof. intros H. split; [reflexivity|exact H]. Qed.

Lemma set_paired_inv2 k : Inv2 k -> Inv2 (set_paired k).
Proof. intros H. exact H. Qed.

Lemma find_join_bucket_conserves o rv k :
  Inv k -> let '(_, k') := find_join_bucket o rv k in
  Inv k' /\ exists D, Permutation (pool k) (pool k' ++ D).
Proof.
  intros HI. unfold find_join_bucket.
  set (k1 := if Nat.eqb (kstate k) 0 then set_state (maybe_fill o (prepare_first o k)) else k).
  assert (H1 : Inv k1 /\ Permutation (pool k1) (pool k)).
  { unfold k1. destruct (Nat.eqb (kstate k) 0) eqn:E; [|split; [exact HI|apply Permutation_refl]].
    split; [apply set_state_Inv, maybe_fill_inv2|].
    eapply Permutation_trans; [apply (maybe_fill_perm o (prepare_first o k))|]. apply prepare_first_perm. apply Inv_state0; auto. }
  destruct H1 as [HI1 HP1]. clearbody k1.
  assert (W : forall k2 D, Inv2 k2 -> Permutation (pool k1) (pool k2 ++ D) ->
              Inv (set_state k2) /\ exists D', Permutation (pool k) (pool (set_state k2) ++ D')).
  { intros k2 D H2 HP. split; [apply set_state_Inv; exact H2|]. exists D.
    eapply Permutation_trans; [apply Permutation_sym; exact HP1|]. exact HP. }
  assert (W0 : forall k2, Inv2 k2 -> pool k2 = pool k1 ->
              Inv (set_state k2) /\ exists D', Permutation (pool k) (pool (set_state k2) ++ D')).
  { intros k2 H2 E. apply (W k2 []); auto. rewrite app_nil_r, E. apply Permutation_refl. }
  destruct rv as [rv|].
  - destruct (Nat.eqb (kstate k1) 1 || Nat.eqb (kstate k1) 2).
    + destruct (cmp_lex (match bvals k1 with Some b => b | None => [] end) rv).
      * apply (W0 (set_paired k1)); [apply set_paired_inv2; exact (proj2 HI1)|reflexivity].
      * set (k2 := maybe_fill o (prepare_new o rv k1)).
        assert (HP2 : Permutation (pool k1) (pool k2 ++ paired_part k1)).
        { eapply Permutation_trans; [apply (prepare_new_perm o rv k1)|]. apply Permutation_app_tail.
          apply Permutation_sym. apply maybe_fill_perm. }
        assert (HI2 : Inv2 k2) by apply maybe_fill_inv2.
        destruct (brecs k2) eqn:Eb.
        -- apply (W k2 (paired_part k1)); auto.
        -- destruct (cmp_lex (match bvals k2 with Some b => b | None => [] end) rv).
           ++ apply (W (set_paired k2) (paired_part k1)); [apply set_paired_inv2; exact HI2|exact HP2].
           ++ apply (W k2 (paired_part k1)); auto.
           ++ apply (W k2 (paired_part k1)); auto.
      * apply (W0 k1); [exact (proj2 HI1)|reflexivity].
    + apply (W0 k1); [exact (proj2 HI1)|reflexivity].
  - apply (W (mark_remaining k1) (paired_part k1)); [intros _ _; reflexivity|apply mark_remaining_perm].
Qed.

(* ------------------------------------------------------------------ the whole run *)
(* the keeper just before its leftUnpaireds are flushed for right record r *)
Definition step_keeper (o : opts) (k : keeper) (r : record) : keeper :=
  match key_of (ie o) (rj o) r with
  | Some vs => snd (find_join_bucket o (Some vs) k)
  | None => k
  end.
(* the left records emitted as unpaired over the run, in emission order (sources, before renaming) *)
Fixpoint unpaired_sources (o : opts) (k : keeper) (right : list record) : list record :=
  match right with
  | [] => lun (snd (find_join_bucket o None k))
  | r :: t => lun (step_keeper o k r) ++ unpaired_sources o (clear_lun (step_keeper o k r)) t
  end.

Lemma clear_lun_pool k : Permutation (pool k) (lun k ++ pool (clear_lun k)).
Proof. unfold pool. cbn. apply Permutation_refl. Qed.

Lemma clear_lun_Inv k : Inv k -> Inv (clear_lun k).
Proof. intros H. exact H. Qed.

Lemma step_keeper_conserves o k r : Inv k -> Inv (step_keeper o k r) /\ exists D, Permutation (pool k) (pool (step_keeper o k r) ++ D).
Proof.
  intros HI. unfold step_keeper. destruct (key_of (ie o) (rj o) r) as [vs|].
  - pose proof (find_join_bucket_conserves o (Some vs) k HI) as H. destruct (find_join_bucket o (Some vs) k) as [b k']. exact H.
  - split; [exact HI|]. exists []. rewrite app_nil_r. apply Permutation_refl.
Qed.

Lemma unpaired_sources_conserved o right : forall k, Inv k ->
  exists D, Permutation (pool k) (unpaired_sources o k right ++ D).
Proof.
  induction right as [|r right IH]; intros k HI; cbn [unpaired_sources].
  - pose proof (find_join_bucket_conserves o None k HI) as H. destruct (find_join_bucket o None k) as [b k'].
    destruct H as [_ [D HP]]. cbn [snd]. exists (brecs k' ++ opt_list (peek k') ++ rem k' ++ D).
    eapply Permutation_trans; [exact HP|]. unfold pool. rewrite <- !app_assoc. apply Permutation_refl.
  - destruct (step_keeper_conserves o k r HI) as [HI1 [D1 HP1]].
    destruct (IH (clear_lun (step_keeper o k r)) (clear_lun_Inv _ HI1)) as [D2 HP2].
    exists (D2 ++ D1). eapply Permutation_trans; [exact HP1|].
    eapply Permutation_trans; [apply Permutation_app_tail; apply clear_lun_pool|].
    rewrite <- !app_assoc. apply Permutation_app_head. rewrite app_assoc. apply Permutation_app_tail. exact HP2.
Qed.

(* link to the verb's output: per right record r the emission is the flushed left-unpaireds (under --ul) followed by
   records built from r only (its unpaired form, or its pairs) *)
Definition step_rest (o : opts) (k : keeper) (r : record) : list record :=
  let paired := match key_of (ie o) (rj o) r with Some vs => fst (find_join_bucket o (Some vs) k) | None => false end in
  (if negb paired && ur o then [unpaired_right o r] else [])
  ++ (if paired && negb (np o) then map (fun l => compose o l r) (brecs (step_keeper o k r)) else []).

Lemma sorted_step_shape o k r :
  sorted_step o k r = ((if ul o then map (unpaired_left o) (lun (step_keeper o k r)) else []) ++ step_rest o k r,
                       clear_lun (step_keeper o k r)).
Proof.
  unfold sorted_step, step_rest, step_keeper. destruct (key_of (ie o) (rj o) r) as [vs|].
  - destruct (find_join_bucket o (Some vs) k) as [b k']. reflexivity.
  - reflexivity.
Qed.

Fixpoint sorted_rests (o : opts) (k : keeper) (right : list record) : list (list record * list record) :=
  match right with
  | [] => []
  | r :: t => (lun (step_keeper o k r), step_rest o k r) :: sorted_rests o (clear_lun (step_keeper o k r)) t
  end.

Lemma sorted_run_shape o right : forall k,
  ul o = true ->
  fst (sorted_run o k right) = flat_map (fun s => map (unpaired_left o) (fst s) ++ snd s) (sorted_rests o k right)
  /\ unpaired_sources o k right
     = List.concat (map fst (sorted_rests o k right)) ++ lun (snd (find_join_bucket o None (snd (sorted_run o k right)))).
Proof.
  induction right as [|r right IH]; intros k Hul; cbn [sorted_run sorted_rests unpaired_sources flat_map map List.concat].
  - cbn. split; reflexivity.
  - rewrite sorted_step_shape. rewrite Hul.
    destruct (IH (clear_lun (step_keeper o k r)) Hul) as (H1 & H3).
    destruct (sorted_run o (clear_lun (step_keeper o k r)) right) as [es k''] eqn:R. cbn [fst snd] in *.
    split; [now rewrite H1|]. rewrite H3. now rewrite <- app_assoc.
Qed.

(* records built from the right record r only: its unpaired form and/or pairs with some left records *)
Definition from_right (o : opts) (r : record) (x : list record) : Prop :=
  exists a ls, (a = [] \/ a = [unpaired_right o r]) /\ x = a ++ map (fun l => compose o l r) ls.

Lemma step_rest_from_right o k r : from_right o r (step_rest o k r).
Proof.
  unfold step_rest, from_right.
  set (paired := match key_of (ie o) (rj o) r with Some vs => fst (find_join_bucket o (Some vs) k) | None => false end).
  destruct (negb paired && ur o); destruct (paired && negb (np o)).
  - exists [unpaired_right o r], (brecs (step_keeper o k r)). auto.
  - exists [unpaired_right o r], []. auto.
  - exists [], (brecs (step_keeper o k r)). auto.
  - exists [], []. auto.
Qed.

Lemma sorted_rests_from_right o right : forall k, Forall2 (fun s r => from_right o r (snd s)) (sorted_rests o k right) right.
Proof. induction right as [|r right IH]; intros k; cbn; constructor; [apply step_rest_from_right|apply IH]. Qed.

Definition keeper0 (o : opts) (left : list record) : keeper := mkKeeper None None [] false [] (map (keep_left o) left) false 0.

Lemma keeper0_Inv o left : Inv (keeper0 o left).
Proof. split; [reflexivity|intros _ _; reflexivity]. Qed.

Theorem join_sorted_conserves_left o left right :
  ul o = true ->
  exists (steps : list (list record * list record)) (final D : list record),
    join_sorted o left right
    = flat_map (fun s => map (unpaired_left o) (fst s) ++ snd s) steps ++ map (unpaired_left o) final
    /\ Forall2 (fun s r => from_right o r (snd s)) steps right
    /\ Permutation (lefts o left) (List.concat (map fst steps) ++ final ++ D).
Proof.
  intros Hul. unfold join_sorted. fold (keeper0 o left).
  destruct (sorted_run_shape o right (keeper0 o left) Hul) as [H1 H2].
  destruct (unpaired_sources_conserved o right (keeper0 o left) (keeper0_Inv o left)) as [D HP].
  destruct (sorted_run o (keeper0 o left) right) as [out k] eqn:R. cbn [fst snd] in *.
  destruct (find_join_bucket o None k) as [b k'] eqn:F. cbn [snd] in *.
  exists (sorted_rests o (keeper0 o left) right), (lun k'), D. rewrite Hul. split; [now rewrite H1|].
  split; [apply sorted_rests_from_right|].
  rewrite H2 in HP. rewrite <- app_assoc in HP.
  eapply Permutation_trans; [|exact HP]. unfold pool, keeper0, lefts. cbn. apply Permutation_refl.
Qed.
