(* C13 -- the exact emit order of the unsorted join, left-unpaired part included: after the right stream's output
   (right-stream order; within one right record the bucket's left-file order) come, under --ul, the unpaired forms of
     the left records of every bucket no right record hit, bucket by bucket in FIRST-APPEARANCE order of the bucket keys
     in the left file, each bucket in left-file order,
     then the key-less left records in left-file order
   (leftBucketsByJoinFieldValues is an ordered map; leftUnpairableRecords a list): NOT plain left-file order. *)
From Miller Require Import Base.Record C13.Model C13.Proofs.
From Coq Require Import Permutation.
Open Scope Z_scope.

(* distinct bucket keys (comma-joined join values) in first-appearance order *)
Definition bucket_keys_from (o : opts) (L : list record) (acc : list bytes) : list bytes :=
  fold_left (fun acc l => match lkey o l with
                          | Some vs => if mem (joinc vs) acc then acc else acc ++ [joinc vs]
                          | None => acc
                          end) L acc.
Definition bucket_keys (o : opts) (L : list record) : list bytes := bucket_keys_from o L [].
Definition lacks_key (o : opts) (l : record) : bool := match lkey o l with Some _ => false | None => true end.

Lemma ingest_keys o left : forall bs un,
  map bkey (fst (ingest o left bs un)) = bucket_keys_from o (lefts o left) (map bkey bs).
Proof.
  induction left as [|l0 left IH]; intros bs un; cbn [ingest]; [reflexivity|].
  change (lefts o (l0 :: left)) with (keep_left o l0 :: lefts o left). unfold bucket_keys_from. cbn [fold_left].
  change (key_of (ie o) (lj o) (keep_left o l0)) with (lkey o (keep_left o l0)).
  destruct (lkey o (keep_left o l0)) as [vs|].
  - rewrite IH, add_left_keys. reflexivity.
  - apply IH.
Qed.

Theorem join_unsorted_exact_order o left right : ul o = true ->
  join_unsorted o left right =
    flat_map (right_out o (lefts o left)) right
    ++ map (unpaired_left o)
         (flat_map (fun k => if hit o right k then [] else lefts_for o k (lefts o left)) (bucket_keys o (lefts o left))
          ++ filter (lacks_key o) (lefts o left)).
Proof.
  intros Hul. unfold join_unsorted.
  pose proof (ingest_keys o left [] []) as K.
  destruct (ingest o left [] []) as [bs un] eqn:E. cbn [fst map] in K.
  pose proof (ingest_spec o left [] [] (Forall_nil _)) as S. rewrite E in S. destruct S as (Hne & Hbl & Hun).
  pose proof (ingest_struct o left [] [] (NoDup_nil _) (Forall_nil _)) as T. rewrite E in T. destruct T as (Hnd & Hfl & _).
  cbn in Hun.
  pose proof (run_right_out o right bs) as R. pose proof (run_right_flags o right bs Hnd) as F.
  destruct (run_right o bs right) as [out bs'] eqn:RR. cbn [fst snd] in R, F.
  rewrite Hul. unfold left_unpaired_out. f_equal.
  - rewrite R. apply flat_map_ext. intros r. eapply step_right_is_right_out; eauto.
  - f_equal. f_equal; [|exact Hun].
    fold (bucket_keys o (lefts o left)) in K. rewrite <- K, F.
    rewrite flat_map_concat_map, map_map, <- flat_map_concat_map.
    rewrite (flat_map_concat_map _ (map bkey bs)), map_map, <- flat_map_concat_map.
    apply flat_map_ext_in_. intros b Hb. cbn [fst snd].
    rewrite Forall_forall in Hfl. rewrite (Hfl b Hb). cbn [orb].
    destruct (hit o right (bkey b)); [reflexivity|].
    pose proof (find_bucket_in bs b Hnd Hb) as Fb. pose proof (Hbl (bkey b)) as Hb2. unfold bl in Hb2. rewrite Fb in Hb2.
    cbn in Hb2. exact Hb2.
Qed.
