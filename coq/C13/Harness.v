(* C13 correspondence harness: (sorted?, options, left file, right stream, stream observed from mlr). *)
From Miller Require Import Base.Bytes Base.Record C13.Model.
Open Scope Z_scope.

(* options as written by the Python driver: (lj, rj, oj, lp, rp, lk?, (np, ul, ur, ie)) *)
Definition mk (lj rj oj : list bytes) (lp rp : bytes) (lk : option (list bytes)) (f : bool * bool * bool * bool) : opts :=
  let '(np, ul, ur, ie) := f in mkOpts lj rj oj lp rp lk np ul ur ie.

Definition chk (c : bool * opts * list record * list record * list record) : bool :=
  let '(sorted, o, lf, rt, obs) := c in
  records_eqb (if sorted then join_sorted o lf rt else join_unsorted o lf rt) obs.
