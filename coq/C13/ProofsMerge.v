(* C13: on key-sorted inputs the sorted-input mode (-s) yields the same multiset of records as the default mode.
   _partial: proved under the side conditions (i) every left record (after --lk) has all its join fields (non-empty under
   --ignore-empty), (ii) the comma-joined key text identifies the key among the records at hand (always true for one
   join field).  Duplicate keys on both sides, key-less right records and every flag combination are covered. *)
From Miller Require Import Base.Bytes Base.Record C13.Model C13.Proofs C13.ProofsSorted C13.Order.
From Coq Require Import Permutation Sorted.

Definition hd_opt {A} (l : list A) : option A := match l with x :: _ => Some x | [] => None end.
Definition isnil {A} (l : list A) : bool := match l with [] => true | _ => false end.

Section Loops.
  Variable o : opts.
  Definition kv (l : record) : list bytes := vals_of o l.

  Lemma skip_keyless_keyed rm un : Forall (fun q => has_keys o q = true) rm -> skip_keyless o rm un = (hd_opt rm, tl rm, un).
  Proof. intros H. destruct rm as [|q rm]; [reflexivity|]. cbn. inversion H as [|? ? Hq _]; subst. now rewrite Hq. Qed.

  (* fillNextJoinBucket's read loop on key-complete records: it takes the maximal prefix with the bucket's key *)
  Lemma fill_loop_keyed bv rm : forall recs un,
    Forall (fun q => has_keys o q = true) rm ->
    exists eqs rest,
      rm = eqs ++ rest
      /\ (forall q, In q eqs -> cmp_lex bv (kv q) = Eq)
      /\ (match rest with q :: _ => cmp_lex bv (kv q) <> Eq | [] => True end)
      /\ fill_loop o bv rm recs un = (hd_opt rest, tl rest, recs ++ eqs, un, isnil rest).
  Proof.
    induction rm as [|q rm IH]; intros recs un H.
    - exists [], []. cbn. rewrite app_nil_r. repeat split; auto. intros q [].
    - inversion H as [|? ? Hq Hrm]; subst. cbn [fill_loop]. rewrite Hq.
      destruct (cmp_lex bv (vals_of o q)) eqn:E.
      + destruct (IH (recs ++ [q]) un Hrm) as (eqs & rest & H1 & H2 & H3 & H4).
        exists (q :: eqs), rest. split; [cbn; now rewrite H1|]. split; [intros x [<-|Hx]; auto|]. split; [exact H3|].
        rewrite H4. now rewrite <- app_assoc.
      + exists [], (q :: rm). cbn. rewrite app_nil_r. repeat split; auto; [intros x []|unfold kv; congruence].
      + exists [], (q :: rm). cbn. rewrite app_nil_r. repeat split; auto; [intros x []|unfold kv; congruence].
  Qed.

  (* prepareForNewJoinBucket's skipping loop on key-complete records: p and the maximal prefix below rv go to leftUnpaireds *)
  Lemma advance_keyed rv fuel : forall p rm un,
    (List.length rm < fuel)%nat ->
    Forall (fun q => has_keys o q = true) rm ->
    exists sk rest,
      rm = sk ++ rest
      /\ (forall q, In q sk -> cmp_lex (kv q) rv = Lt)
      /\ (match rest with q :: _ => cmp_lex (kv q) rv <> Lt | [] => True end)
      /\ advance fuel o rv p rm un = (hd_opt rest, tl rest, un ++ p :: sk, isnil rest).
  Proof.
    induction fuel as [|fuel IH]; intros p rm un Hf H; [lia|].
    cbn [advance]. rewrite skip_keyless_keyed by exact H.
    destruct rm as [|q rm].
    - exists [], []. cbn. repeat split; auto. intros q [].
    - cbn [hd_opt tl]. inversion H as [|? ? Hq Hrm]; subst.
      destruct (cmp_lex (vals_of o q) rv) eqn:E.
      + exists [], (q :: rm). cbn. repeat split; auto; [intros x []|unfold kv; congruence].
      + destruct (IH q rm (un ++ [p]) ltac:(cbn in Hf; lia) Hrm) as (sk & rest & H1 & H2 & H3 & H4).
        exists (q :: sk), rest. split; [cbn; now rewrite H1|]. split; [intros x [<-|Hx]; auto|]. split; [exact H3|].
        rewrite H4. now rewrite <- app_assoc.
      + exists [], (q :: rm). cbn. repeat split; auto; [intros x []|unfold kv; congruence].
  Qed.
End Loops.

Section Merge.
  Variable o : opts.
  Variable L : list record.                    (* the left records as the verb sees them *)
  Hypothesis HK : forall l, In l L -> has_keys o l = true.
  Hypothesis Hn : List.length (lj o) = List.length (rj o).
  Hypothesis HsL : StronglySorted (fun a b => kle (kv o a) (kv o b)) L.

  Notation kvl := (kv o).

  (* right streams we can handle: sorted on the keyed records, and the joined key text identifies the key *)
  Definition rle (a b : record) : Prop :=
    match rkey o a, rkey o b with Some x, Some y => kle x y | _, _ => True end.
  Definition inj_on (Rs : list record) : Prop :=
    forall l r rv, In l L -> In r Rs -> rkey o r = Some rv -> joinc rv = joinc (kvl l) -> rv = kvl l.
  Definition ROK (Rs : list record) : Prop := StronglySorted rle Rs /\ inj_on Rs.

  Lemma ROK_tail r Rs : ROK (r :: Rs) -> ROK Rs.
  Proof. intros [H1 H2]. split; [now inversion H1|]. intros l r' rv Hl Hr. apply H2; auto. right; auto. Qed.

  Lemma lkey_kv l : In l L -> lkey o l = Some (kvl l) /\ List.length (kvl l) = List.length (lj o).
  Proof.
    intros Hl. pose proof (HK l Hl) as H. unfold has_keys in H. unfold lkey, kv, vals_of, key_of in *.
    destruct (selected (lj o) l) as [vs|] eqn:S; [|discriminate]. pose proof (selected_length _ _ _ S) as Len.
    destruct (ie o && any_empty vs); [discriminate|]. auto.
  Qed.

  Lemma rkey_len r rv : rkey o r = Some rv -> List.length rv = List.length (lj o).
  Proof.
    unfold rkey, key_of. destruct (selected (rj o) r) as [vs|] eqn:S; [|discriminate].
    destruct (ie o && any_empty vs); [discriminate|]. intros [= <-]. rewrite Hn. eapply selected_length; eauto.
  Qed.

  (* "r pairs with l" as the code decides it in the default mode *)
  Definition km (rv : list bytes) (l : record) : bool := keys_match o (joinc rv) l.

  Lemma km_beqb rv l : In l L -> km rv l = beqb (joinc rv) (joinc (kvl l)).
  Proof. intros Hl. unfold km, keys_match. now rewrite (proj1 (lkey_kv l Hl)). Qed.

  Lemma km_eq rv l : In l L -> kvl l = rv -> km rv l = true.
  Proof. intros Hl <-. rewrite km_beqb by auto. apply beqb_refl. Qed.

  Lemma km_ne Rs r rv l : inj_on Rs -> In r Rs -> rkey o r = Some rv -> In l L -> cmp_lex (kvl l) rv <> Eq -> km rv l = false.
  Proof.
    intros Hi Hr Hk Hl Hc. rewrite km_beqb by auto. destruct (beqb_spec (joinc rv) (joinc (kvl l))) as [E|]; [|reflexivity].
    exfalso. apply Hc. rewrite (Hi l r rv Hl Hr Hk E). apply cmp_lex_refl.
  Qed.

  Lemma matched_cons_keyed r rv Rs l : rkey o r = Some rv -> In l L -> matched o (r :: Rs) l = km rv l || matched o Rs l.
  Proof.
    intros Hk Hl. unfold matched. rewrite (proj1 (lkey_kv l Hl)). unfold hit. cbn [existsb]. unfold rmatch at 1. rewrite Hk.
    now rewrite km_beqb.
  Qed.

  Lemma matched_cons_keyless r Rs l : rkey o r = None -> matched o (r :: Rs) l = matched o Rs l.
  Proof. intros Hk. unfold matched. destruct (lkey o l); [|reflexivity]. unfold hit. cbn [existsb]. unfold rmatch at 1. now rewrite Hk. Qed.

  (* a left record strictly below every key of Rs is matched by nothing in Rs *)
  Lemma below_unmatched Rs l : inj_on Rs -> In l L ->
    (forall r rv, In r Rs -> rkey o r = Some rv -> cmp_lex (kvl l) rv = Lt) -> matched o Rs l = false.
  Proof.
    intros Hi Hl Hb. induction Rs as [|r Rs IH]; [unfold matched; now destruct (lkey o l)|].
    assert (IH' : matched o Rs l = false).
    { apply IH; [intros l' r' rv' Hl' Hr'; apply Hi; auto; right; auto|intros r' rv' Hr'; apply Hb; right; auto]. }
    destruct (rkey o r) as [rv|] eqn:Hk.
    - rewrite (matched_cons_keyed r rv Rs l Hk Hl), IH', orb_false_r.
      apply (km_ne (r :: Rs) r rv l Hi (or_introl eq_refl) Hk Hl). rewrite (Hb r rv (or_introl eq_refl) Hk). discriminate.
    - now rewrite matched_cons_keyless.
  Qed.

  Definition unm (Rs : list record) (l : record) : bool := negb (matched o Rs l).

  Definition pendl (k : keeper) : list record := opt_list (peek k) ++ rem k.
  Definition Pl (k : keeper) : list record := brecs k ++ pendl k.
  Definition pend (k : keeper) : list record := (if bpaired k then [] else brecs k) ++ pendl k.
  Definition Spec (k : keeper) (Rs : list record) : list record :=
    flat_map (right_out o L) Rs ++ (if ul o then map (unpaired_left o) (lun k ++ filter (unm Rs) (pend k)) else []).

  (* the keeper invariant on key-sorted, key-complete left input, relative to the right records still to come *)
  Definition below (Done : list record) (Rs : list record) : Prop :=
    forall l r rv, In l Done -> In r Rs -> rkey o r = Some rv -> cmp_lex (kvl l) rv = Lt.
  Definition MInv (k : keeper) (Rs : list record) : Prop :=
    Inv k /\ kstate k <> 0%nat
    /\ (exists Done, L = Done ++ Pl k /\ below Done Rs)
    /\ (peek k = None -> rem k = [] /\ leof k = true)
    /\ match bvals k with
       | Some bv => brecs k <> [] /\ (forall l, In l (brecs k) -> kvl l = bv) /\ (forall l, In l (pendl k) -> cmp_lex bv (kvl l) = Lt)
       | None => brecs k = [] /\ peek k = None
       end.

  Lemma sorted_suffix (A B : list record) : StronglySorted (fun a b => kle (kvl a) (kvl b)) (A ++ B) ->
    StronglySorted (fun a b => kle (kvl a) (kvl b)) B.
  Proof. induction A as [|a A IH]; cbn; intros H; [exact H|]. inversion H; subst. auto. Qed.

  Lemma sorted_head_le (x : record) (B : list record) : StronglySorted (fun a b => kle (kvl a) (kvl b)) (x :: B) ->
    forall l, In l B -> kle (kvl x) (kvl l).
  Proof. intros H l Hl. inversion H as [|? ? _ Hf]; subst. rewrite Forall_forall in Hf. auto. Qed.

  Lemma in_L_of_app (A B : list record) l : L = A ++ B -> In l B -> In l L.
  Proof. intros -> H. apply in_or_app. right; exact H. Qed.

  (* everything after a maximal run of key bv, in a sorted list, is strictly above bv *)
  Lemma above_after_run bv (rest : list record) :
    (forall l, In l rest -> In l L) ->
    List.length bv = List.length (lj o) ->
    StronglySorted (fun a b => kle (kvl a) (kvl b)) rest ->
    (match rest with q :: _ => kle bv (kvl q) /\ cmp_lex bv (kvl q) <> Eq | [] => True end) ->
    forall l, In l rest -> cmp_lex bv (kvl l) = Lt.
  Proof.
    intros HinL Hlen Hs Hhd l Hl. destruct rest as [|q rest]; [contradiction|]. destruct Hhd as [Hle Hne].
    assert (Hq : cmp_lex bv (kvl q) = Lt) by (unfold kle in Hle; destruct (cmp_lex bv (kvl q)); congruence).
    destruct Hl as [<-|Hl]; [exact Hq|].
    apply (cmp_lex_lt_le bv (kvl q) (kvl l)); auto.
    - rewrite (proj2 (lkey_kv q (HinL q (or_introl eq_refl)))). exact Hlen.
    - rewrite (proj2 (lkey_kv q (HinL q (or_introl eq_refl)))), (proj2 (lkey_kv l (HinL l (or_intror Hl)))). reflexivity.
    - eapply sorted_head_le; eauto.
  Qed.

  Lemma opt_hd_tl {A} (rest : list A) : (match hd_opt rest with Some x => [x] | None => [] end) ++ tl rest = rest.
  Proof. destruct rest; reflexivity. Qed.

  Notation SS := (StronglySorted (fun a b => kle (kvl a) (kvl b))).

  (* filling a fresh bucket from the peek record: the bucket is the maximal run of the peek record's key *)
  Lemma fill_spec k q :
    peek k = Some q -> brecs k = [] ->
    (forall l, In l (q :: rem k) -> In l L) -> SS (q :: rem k) ->
    exists eqs rest2,
      rem k = eqs ++ rest2
      /\ brecs (fill_next o k) = q :: eqs /\ (forall l, In l (q :: eqs) -> kvl l = kvl q)
      /\ peek (fill_next o k) = hd_opt rest2 /\ rem (fill_next o k) = tl rest2
      /\ (forall l, In l rest2 -> cmp_lex (kvl q) (kvl l) = Lt)
      /\ bvals (fill_next o k) = Some (kvl q) /\ bpaired (fill_next o k) = false /\ lun (fill_next o k) = lun k
      /\ leof (fill_next o k) = (if isnil rest2 then true else leof k) /\ kstate (fill_next o k) = kstate k.
  Proof.
    intros Hp Hb HinL Hs. unfold fill_next. rewrite Hp, Hb. cbn [app].
    assert (Hkeyed : Forall (fun x => has_keys o x = true) (rem k)).
    { apply Forall_forall. intros x Hx. apply HK. apply HinL. right; exact Hx. }
    destruct (fill_loop_keyed o (vals_of o q) (rem k) [q] (lun k) Hkeyed) as (eqs & rest2 & H1 & H2 & H3 & H4).
    rewrite H4. cbn. exists eqs, rest2.
    assert (Hq : List.length (kvl q) = List.length (lj o)) by (apply lkey_kv; apply HinL; left; reflexivity).
    assert (Heq : forall l, In l (q :: eqs) -> kvl l = kvl q).
    { intros l [<-|Hl]; [reflexivity|]. symmetry. apply cmp_lex_eq; [|apply H2; exact Hl].
      rewrite Hq. symmetry. apply lkey_kv. apply HinL. right. rewrite H1. apply in_or_app. left; exact Hl. }
    repeat split; auto.
    intros l Hl. apply (above_after_run (kvl q) rest2); auto.
    - intros x Hx. apply HinL. right. rewrite H1. apply in_or_app. right; exact Hx.
    - rewrite H1 in Hs. inversion Hs as [|? ? Hs' _]; subst. eapply sorted_suffix; eauto.
    - destruct rest2 as [|h rest2]; [exact I|]. split; [|exact H3].
      eapply sorted_head_le; [exact Hs|]. rewrite H1. apply in_or_app. right. left; reflexivity.
  Qed.

  (* FindJoinBucket after the prefill block *)
  Definition fjb_core (rv : list bytes) (k : keeper) : bool * keeper :=
    if Nat.eqb (kstate k) 1 || Nat.eqb (kstate k) 2 then
      match cmp_lex (match bvals k with Some b => b | None => [] end) rv with
      | Lt =>
        let k := maybe_fill o (prepare_new o rv k) in
        match brecs k with
        | [] => (false, set_state k)
        | _ => match cmp_lex (match bvals k with Some b => b | None => [] end) rv with
               | Eq => (true, set_state (set_paired k))
               | _ => (false, set_state k)
               end
        end
      | Eq => (true, set_state (set_paired k))
      | Gt => (false, set_state k)
      end
    else (false, set_state k).
  Definition block (k : keeper) : keeper :=
    if Nat.eqb (kstate k) 0 then set_state (maybe_fill o (prepare_first o k)) else k.
  Lemma fjb_unfold rv k : find_join_bucket o (Some rv) k = fjb_core rv (block k).
  Proof. reflexivity. Qed.

  Lemma state12 k : Inv k -> kstate k <> 0%nat ->
    (Nat.eqb (kstate k) 1 || Nat.eqb (kstate k) 2) = match bvals k with Some _ => true | None => false end.
  Proof.
    intros [H1 _] H0. rewrite H1 in *. unfold compute_state in *. destruct (bvals k); [destruct (peek k); reflexivity|].
    destruct (leof k); [reflexivity|congruence].
  Qed.

  (* what one right record must achieve; k1 is the keeper before its leftUnpaireds are flushed *)
  Definition StepOK (k : keeper) (r : record) (rv : list bytes) (Rs : list record) (paired : bool) (k1 : keeper) : Prop :=
    MInv (clear_lun k1) Rs
    /\ lefts_for o (joinc rv) L = (if paired then brecs k1 else [])
    /\ (paired = true -> brecs k1 <> [])
    /\ Permutation (lun k1 ++ filter (unm Rs) (pend k1)) (lun k ++ filter (unm (r :: Rs)) (pend k)).

  Lemma step_assemble k r rv Rs :
    rkey o r = Some rv ->
    StepOK k r rv Rs (fst (find_join_bucket o (Some rv) k)) (snd (find_join_bucket o (Some rv) k)) ->
    MInv (snd (sorted_step o k r)) Rs /\ Permutation (fst (sorted_step o k r) ++ Spec (snd (sorted_step o k r)) Rs) (Spec k (r :: Rs)).
  Proof.
    intros Hk (HI & Hlf & Hne & HP). unfold sorted_step. fold (rkey o r). rewrite Hk.
    destruct (find_join_bucket o (Some rv) k) as [paired k1]. cbn [fst snd] in *. split; [exact HI|].
    unfold Spec. cbn [flat_map]. change (pend (clear_lun k1)) with (pend k1). change (lun (clear_lun k1)) with (@nil record). cbn [app].
    change (brecs (clear_lun k1)) with (brecs k1).
    assert (HX : (if negb paired && ur o then [unpaired_right o r] else [])
                 ++ (if paired && negb (np o) then map (fun l => compose o l r) (brecs k1) else []) = right_out o L r).
    { unfold right_out. rewrite Hk, Hlf. destruct paired; cbn.
      - destruct (brecs k1) eqn:E; [exfalso; apply Hne; auto|]. destruct (np o); reflexivity.
      - destruct (ur o); reflexivity. }
    rewrite <- HX. set (X := (if negb paired && ur o then [unpaired_right o r] else []) ++ _).
    set (F := flat_map (right_out o L) Rs).
    destruct (ul o).
    - rewrite <- !app_assoc.
      apply Permutation_trans with (X ++ F ++ map (unpaired_left o) (lun k1) ++ map (unpaired_left o) (filter (unm Rs) (pend k1))).
      + rewrite !(app_assoc X F). apply Permutation_app_swap_app.
      + apply Permutation_app_head. apply Permutation_app_head. rewrite <- map_app. apply Permutation_map. exact HP.
    - cbn [app]. rewrite !app_nil_r. apply Permutation_refl.
  Qed.

  (* ---------------------------------------------------------------- small facts used by the case analysis *)
  Lemma filter_none {A} (p : A -> bool) l : (forall x, In x l -> p x = false) -> filter p l = [].
  Proof. induction l as [|x l IH]; intros H; cbn; [reflexivity|]. rewrite (H x) by (left; auto). apply IH. intros; apply H; right; auto. Qed.
  Lemma filter_all {A} (p : A -> bool) l : (forall x, In x l -> p x = true) -> filter p l = l.
  Proof. induction l as [|x l IH]; intros H; cbn; [reflexivity|]. rewrite (H x) by (left; auto). f_equal. apply IH. intros; apply H; right; auto. Qed.

  Lemma unm_cons r rv Rs l : rkey o r = Some rv -> In l L -> unm (r :: Rs) l = negb (km rv l) && unm Rs l.
  Proof. intros Hk Hl. unfold unm. rewrite (matched_cons_keyed r rv Rs l Hk Hl). apply negb_orb. Qed.

  Lemma filter_unm_skip r rv Rs X : rkey o r = Some rv -> (forall l, In l X -> In l L /\ km rv l = false) ->
    filter (unm (r :: Rs)) X = filter (unm Rs) X.
  Proof.
    intros Hk H. apply filter_ext_in. intros l Hl. destruct (H l Hl) as [H1 H2]. rewrite (unm_cons r rv Rs l Hk H1), H2. reflexivity.
  Qed.

  Lemma filter_unm_hit r rv Rs X : rkey o r = Some rv -> (forall l, In l X -> In l L /\ km rv l = true) ->
    filter (unm (r :: Rs)) X = [].
  Proof.
    intros Hk H. apply filter_none. intros l Hl. destruct (H l Hl) as [H1 H2]. rewrite (unm_cons r rv Rs l Hk H1), H2. reflexivity.
  Qed.

  Lemma filter_unm_below Rs X : inj_on Rs -> (forall l, In l X -> In l L) -> below X Rs -> filter (unm Rs) X = X.
  Proof.
    intros Hi HX Hb. apply filter_all. intros l Hl. unfold unm. rewrite (below_unmatched Rs l Hi (HX l Hl)); [reflexivity|].
    intros r rv Hr Hk. eapply Hb; eauto.
  Qed.

  Lemma below_tail X r Rs : below X (r :: Rs) -> below X Rs.
  Proof. intros H l r' rv Hl Hr. apply (H l r' rv Hl). right; exact Hr. Qed.

  Lemma below_app X Y Rs : below X Rs -> below Y Rs -> below (X ++ Y) Rs.
  Proof. intros H1 H2 l r rv Hl. apply in_app_or in Hl. destruct Hl; [eapply H1|eapply H2]; eauto. Qed.

  (* records strictly below the current right key are below every later right key *)
  Lemma below_from_lt X r rv Rs :
    ROK (r :: Rs) -> rkey o r = Some rv -> (forall l, In l X -> In l L /\ cmp_lex (kvl l) rv = Lt) -> below X (r :: Rs).
  Proof.
    intros [Hs _] Hk HX l r' rv' Hl Hr' Hk'. destruct (HX l Hl) as [HlL Hlt]. destruct Hr' as [<-|Hr'].
    - rewrite Hk in Hk'. injection Hk' as <-. exact Hlt.
    - apply (cmp_lex_lt_le (kvl l) rv rv'); auto.
      + rewrite (proj2 (lkey_kv l HlL)). symmetry. eapply rkey_len; eauto.
      + rewrite (rkey_len r rv Hk). symmetry. eapply rkey_len; eauto.
      + inversion Hs as [|? ? _ Hf]; subst. rewrite Forall_forall in Hf. specialize (Hf r' Hr'). unfold rle in Hf. now rewrite Hk, Hk' in Hf.
  Qed.

  Lemma km_false_of_ne r rv Rs l : ROK (r :: Rs) -> rkey o r = Some rv -> In l L -> cmp_lex (kvl l) rv <> Eq -> km rv l = false.
  Proof. intros [_ Hi] Hk Hl Hc. eapply (km_ne (r :: Rs) r); eauto. left; reflexivity. Qed.

  Lemma lefts_none rv X : (forall l, In l X -> km rv l = false) -> lefts_for o (joinc rv) X = [].
  Proof. intros H. unfold lefts_for. apply filter_none. exact H. Qed.
  Lemma lefts_all rv X : (forall l, In l X -> km rv l = true) -> lefts_for o (joinc rv) X = X.
  Proof. intros H. unfold lefts_for. apply filter_all. exact H. Qed.
  Lemma lefts_app rv X Y : lefts_for o (joinc rv) (X ++ Y) = lefts_for o (joinc rv) X ++ lefts_for o (joinc rv) Y.
  Proof. unfold lefts_for. apply filter_app. Qed.

  Lemma compute_nonzero k : (bvals k = None -> leof k = true) -> compute_state k <> 0%nat.
  Proof. intros H. unfold compute_state. destruct (bvals k); [destruct (peek k); discriminate|]. rewrite H by reflexivity. discriminate. Qed.

  Section Step.
    Variables (k : keeper) (r : record) (rv : list bytes) (Rs Done : list record).
    Hypothesis HROK : ROK (r :: Rs).
    Hypothesis Hk : rkey o r = Some rv.
    Hypothesis HI : Inv k.
    Hypothesis H0 : kstate k <> 0%nat.
    Hypothesis HL : L = Done ++ Pl k.
    Hypothesis Hbel : below Done (r :: Rs).
    Hypothesis Hpk : peek k = None -> rem k = [] /\ leof k = true.

    Let HiRs : inj_on Rs := proj2 (ROK_tail r Rs HROK).

    Lemma in_Done l : In l Done -> In l L.
    Proof. intros H. rewrite HL. apply in_or_app. left; exact H. Qed.
    Lemma in_Pl l : In l (Pl k) -> In l L.
    Proof. intros H. rewrite HL. apply in_or_app. right; exact H. Qed.
    Lemma in_brecs l : In l (brecs k) -> In l L.
    Proof. intros H. apply in_Pl. unfold Pl. apply in_or_app. left; exact H. Qed.
    Lemma in_pendl l : In l (pendl k) -> In l L.
    Proof. intros H. apply in_Pl. unfold Pl. apply in_or_app. right; exact H. Qed.

    Lemma Done_no_match : lefts_for o (joinc rv) Done = [].
    Proof.
      apply lefts_none. intros l Hl. apply (km_false_of_ne r rv Rs l HROK Hk (in_Done l Hl)).
      rewrite (Hbel l r rv Hl (or_introl eq_refl) Hk). discriminate.
    Qed.

    (* ---- no bucket: the left file is exhausted *)
    Lemma step_eof : bvals k = None -> brecs k = [] -> peek k = None ->
      StepOK k r rv Rs (fst (fjb_core rv k)) (snd (fjb_core rv k)).
    Proof.
      intros Hb Hbr Hp. destruct (Hpk Hp) as [Hrem Hleof].
      unfold fjb_core. rewrite (state12 k HI H0), Hb. cbn [fst snd].
      assert (HP : Pl k = []) by (unfold Pl, pendl; rewrite Hbr, Hp, Hrem; reflexivity).
      split; [|split; [|split]].
      - split; [apply clear_lun_Inv, set_state_Inv; exact (proj2 HI)|]. split; [cbn; apply compute_nonzero; intros _; exact Hleof|].
        split; [exists Done; split; [exact HL|apply (below_tail _ r); exact Hbel]|].
        split; [exact Hpk|]. cbn. rewrite Hb. split; assumption.
      - rewrite HL, HP, app_nil_r. apply Done_no_match.
      - discriminate.
      - change (pend (set_state k)) with (pend k). change (lun (set_state k)) with (lun k).
        assert (E : pend k = []) by (unfold pend, pendl; rewrite Hbr, Hp, Hrem; destruct (bpaired k); reflexivity).
        rewrite E. cbn. apply Permutation_refl.
    Qed.

    (* ---- a bucket with key bv *)
    Variable bv : list bytes.
    Hypothesis Hbv : bvals k = Some bv.
    Hypothesis Hne : brecs k <> [].
    Hypothesis Hbk : forall l, In l (brecs k) -> kvl l = bv.
    Hypothesis Hab : forall l, In l (pendl k) -> cmp_lex bv (kvl l) = Lt.

    Lemma bv_len : List.length bv = List.length (lj o).
    Proof. destruct (brecs k) as [|b bs] eqn:E; [congruence|]. rewrite <- (Hbk b (or_introl eq_refl)). apply lkey_kv. apply in_brecs. rewrite E. left; reflexivity. Qed.

    Lemma pendl_cmp_rv l : In l (pendl k) -> cmp_lex bv rv <> Lt -> cmp_lex (kvl l) rv <> Eq.
    Proof.
      intros Hl Hc E. apply cmp_lex_eq in E; [|rewrite (proj2 (lkey_kv l (in_pendl l Hl))); symmetry; eapply rkey_len; eauto].
      rewrite <- E in Hc. apply Hc. apply Hab. exact Hl.
    Qed.

    Lemma MInv_same (k1 : keeper) :
      Inv k1 -> kstate k1 <> 0%nat -> brecs k1 = brecs k -> peek k1 = peek k -> rem k1 = rem k -> leof k1 = leof k -> bvals k1 = bvals k ->
      MInv k1 Rs.
    Proof.
      intros A1 A2 A3 A4 A5 A6 A7. split; [exact A1|]. split; [exact A2|].
      split; [exists Done; split; [unfold Pl, pendl; rewrite A3, A4, A5; exact HL|apply (below_tail _ r); exact Hbel]|].
      split; [rewrite A4, A5, A6; exact Hpk|]. rewrite A7, Hbv, A3. unfold pendl. rewrite A4, A5. auto.
    Qed.

    Lemma step_eq : cmp_lex bv rv = Eq -> StepOK k r rv Rs true (set_state (set_paired k)).
    Proof.
      intros Hc. assert (E : bv = rv) by (apply cmp_lex_eq; [rewrite bv_len; symmetry; eapply rkey_len; eauto|exact Hc]).
      split; [|split; [|split]].
      - apply MInv_same; try reflexivity; [apply clear_lun_Inv, set_state_Inv, set_paired_inv2; exact (proj2 HI)|].
        cbn. apply compute_nonzero. cbn. rewrite Hbv. discriminate.
      - rewrite HL. unfold Pl. rewrite !lefts_app, Done_no_match. cbn [app brecs set_state set_paired].
        rewrite (lefts_all rv (brecs k)) by (intros l Hl; apply km_eq; [apply in_brecs; exact Hl|rewrite <- E; apply Hbk; exact Hl]).
        rewrite (lefts_none rv (pendl k)); [now rewrite app_nil_r|].
        intros l Hl. apply (km_false_of_ne r rv Rs l HROK Hk (in_pendl l Hl)). apply pendl_cmp_rv; [exact Hl|rewrite Hc; discriminate].
      - intros _. exact Hne.
      - cbn [lun set_state set_paired]. apply Permutation_app_head. unfold pend. cbn [bpaired set_state set_paired brecs].
        change (pendl (set_state (set_paired k))) with (pendl k). cbn [app].
        rewrite filter_app.
        rewrite (filter_unm_hit r rv Rs (if bpaired k then [] else brecs k) Hk).
        + cbn [app]. rewrite (filter_unm_skip r rv Rs (pendl k) Hk); [apply Permutation_refl|].
          intros l Hl. split; [apply in_pendl; exact Hl|]. apply (km_false_of_ne r rv Rs l HROK Hk (in_pendl l Hl)).
          apply pendl_cmp_rv; [exact Hl|rewrite Hc; discriminate].
        + intros l Hl. destruct (bpaired k); [contradiction|]. split; [apply in_brecs; exact Hl|].
          apply km_eq; [apply in_brecs; exact Hl|rewrite <- E; apply Hbk; exact Hl].
    Qed.

    Lemma step_gt : cmp_lex bv rv = Gt -> StepOK k r rv Rs false (set_state k).
    Proof.
      intros Hc.
      assert (Hbr : forall l, In l (brecs k) -> km rv l = false).
      { intros l Hl. apply (km_false_of_ne r rv Rs l HROK Hk (in_brecs l Hl)). rewrite (Hbk l Hl), Hc. discriminate. }
      assert (Hpe : forall l, In l (pendl k) -> km rv l = false).
      { intros l Hl. apply (km_false_of_ne r rv Rs l HROK Hk (in_pendl l Hl)). apply pendl_cmp_rv; [exact Hl|rewrite Hc; discriminate]. }
      split; [|split; [|split]].
      - apply MInv_same; try reflexivity; [apply clear_lun_Inv, set_state_Inv; exact (proj2 HI)|].
        cbn. apply compute_nonzero. cbn. rewrite Hbv. discriminate.
      - rewrite HL. unfold Pl. rewrite !lefts_app, Done_no_match, (lefts_none rv _ Hbr), (lefts_none rv _ Hpe). reflexivity.
      - discriminate.
      - cbn [lun set_state]. apply Permutation_app_head. change (pend (set_state k)) with (pend k).
        rewrite (filter_unm_skip r rv Rs (pend k) Hk); [apply Permutation_refl|].
        intros l Hl. unfold pend in Hl. apply in_app_or in Hl. destruct Hl as [Hl|Hl].
        + destruct (bpaired k); [contradiction|]. split; [apply in_brecs; exact Hl|auto].
        + split; [apply in_pendl; exact Hl|auto].
    Qed.

    (* ---- the bucket is below the right key: it is released and the left file advanced *)
    Definition un_new : list record := if bpaired k then lun k else lun k ++ brecs k.

    Lemma pendl_keyed : Forall (fun q => has_keys o q = true) (rem k).
    Proof. apply Forall_forall. intros x Hx. apply HK. apply in_pendl. unfold pendl. apply in_or_app. right; exact Hx. Qed.

    Lemma prepare_new_spec :
      exists skipped rest',
        pendl k = skipped ++ rest'
        /\ (forall l, In l skipped -> cmp_lex (kvl l) rv = Lt)
        /\ (match rest' with q :: _ => cmp_lex (kvl q) rv <> Lt | [] => True end)
        /\ prepare_new o rv k
           = mkKeeper (hd_opt rest') None [] false (un_new ++ skipped) (tl rest') (if isnil rest' then true else leof k) (kstate k).
    Proof.
      unfold prepare_new. fold un_new. unfold pendl. destruct (peek k) as [p|] eqn:Hp.
      - destruct (cmp_lex (vals_of o p) rv) eqn:Hc.
        + exists [], (p :: rem k). cbn. rewrite app_nil_r. repeat split; auto; [intros l []|unfold kv; congruence].
        + destruct (advance_keyed o rv (S (List.length (rem k))) p (rem k) un_new (PeanoNat.Nat.lt_succ_diag_r _) pendl_keyed)
            as (sk & rest & H1 & H2 & H3 & H4).
          rewrite H4. exists (p :: sk), rest. cbn. rewrite H1. repeat split; auto.
          intros l [<-|Hl]; [exact Hc|auto].
        + exists [], (p :: rem k). cbn. rewrite app_nil_r. repeat split; auto; [intros l []|unfold kv; congruence].
      - destruct (Hpk eq_refl) as [Hrem Hleof]. exists [], []. rewrite Hrem, Hleof. cbn. rewrite app_nil_r. repeat split; auto. intros l [].
    Qed.

    Definition lt_result : bool * keeper :=
      let k2 := maybe_fill o (prepare_new o rv k) in
      match brecs k2 with
      | [] => (false, set_state k2)
      | _ => match cmp_lex (match bvals k2 with Some b => b | None => [] end) rv with
             | Eq => (true, set_state (set_paired k2))
             | _ => (false, set_state k2)
             end
      end.

    Lemma step_lt : cmp_lex bv rv = Lt -> StepOK k r rv Rs (fst lt_result) (snd lt_result).
    Proof.
      intros Hc. destruct prepare_new_spec as (skipped & rest' & Hsplit & Hsk & Hhd & Hpn).
      (* the released part: Done, the old bucket, the skipped records -- all below rv, hence below everything to come *)
      assert (HinSk : forall l, In l skipped -> In l L) by (intros l Hl; apply in_pendl; rewrite Hsplit; apply in_or_app; left; exact Hl).
      assert (HinR : forall l, In l rest' -> In l L) by (intros l Hl; apply in_pendl; rewrite Hsplit; apply in_or_app; right; exact Hl).
      assert (Hbr_lt : forall l, In l (brecs k) -> In l L /\ cmp_lex (kvl l) rv = Lt).
      { intros l Hl. split; [apply in_brecs; exact Hl|]. now rewrite (Hbk l Hl). }
      assert (Hsk_lt : forall l, In l skipped -> In l L /\ cmp_lex (kvl l) rv = Lt) by (intros l Hl; split; auto).
      assert (Bbr : below (brecs k) (r :: Rs)) by (apply (below_from_lt _ r rv Rs HROK Hk Hbr_lt)).
      assert (Bsk : below skipped (r :: Rs)) by (apply (below_from_lt _ r rv Rs HROK Hk Hsk_lt)).
      set (Done' := Done ++ brecs k ++ skipped).
      assert (BD : below Done' (r :: Rs)) by (unfold Done'; apply below_app; [exact Hbel|apply below_app; assumption]).
      assert (HL' : L = Done' ++ rest').
      { rewrite HL. unfold Done', Pl. rewrite Hsplit. now rewrite <- !app_assoc. }
      assert (HnoD : lefts_for o (joinc rv) Done' = []).
      { apply lefts_none. intros l Hl. assert (HlL : In l L) by (rewrite HL'; apply in_or_app; left; exact Hl).
        apply (km_false_of_ne r rv Rs l HROK Hk HlL). rewrite (BD l r rv Hl (or_introl eq_refl) Hk). discriminate. }
      assert (HinD' : forall l, In l Done' -> In l L) by (intros l Hl; rewrite HL'; apply in_or_app; left; exact Hl).
      (* the records released into leftUnpaireds are unmatched by r and by everything after it *)
      assert (Hrel : filter (unm (r :: Rs)) ((if bpaired k then [] else brecs k) ++ skipped) = (if bpaired k then [] else brecs k) ++ skipped).
      { apply (filter_unm_below (r :: Rs)); [exact (proj2 HROK)| |].
        - intros l Hl. apply in_app_or in Hl. destruct Hl as [Hl|Hl]; [|auto]. destruct (bpaired k); [contradiction|apply in_brecs; exact Hl].
        - apply below_app; [|exact Bsk]. destruct (bpaired k); [intros l r' rv' []|exact Bbr]. }
      assert (Hpend : pend k = ((if bpaired k then [] else brecs k) ++ skipped) ++ rest').
      { unfold pend. rewrite Hsplit. now rewrite <- !app_assoc. }
      assert (Hlun : un_new ++ skipped = lun k ++ ((if bpaired k then [] else brecs k) ++ skipped)).
      { unfold un_new. destruct (bpaired k); cbn [app]; [reflexivity|now rewrite <- app_assoc]. }
      unfold lt_result. rewrite Hpn. unfold maybe_fill. cbn [peek].
      destruct rest' as [|q rem'].
      - (* left file exhausted *)
        cbn [hd_opt tl isnil brecs fst snd].
        split; [|split; [|split]].
        + split; [apply clear_lun_Inv, set_state_Inv; intros _ H; discriminate H|].
          split; [cbn; discriminate|].
          split; [exists Done'; split; [rewrite HL'; reflexivity|apply (below_tail _ r); exact BD]|].
          split; [intros _; split; reflexivity|]. cbn. split; reflexivity.
        + rewrite HL', app_nil_r. exact HnoD.
        + discriminate.
        + cbn [lun set_state clear_lun]. unfold pend at 1. cbn [bpaired brecs set_state app]. unfold pendl at 1. cbn [peek rem set_state opt_list app filter].
          rewrite app_nil_r, Hpend, app_nil_r, Hrel, Hlun. apply Permutation_refl.
      - (* a new bucket is filled from q *)
        cbn [hd_opt tl isnil].
        set (kp := mkKeeper (Some q) None [] false (un_new ++ skipped) rem' (leof k) (kstate k)).
        assert (Hss : SS (q :: rem')) by (rewrite HL' in HsL; eapply sorted_suffix; exact HsL).
        destruct (fill_spec kp q eq_refl eq_refl HinR Hss) as (eqs & rest2 & F1 & F2 & F3 & F4 & F5 & F6 & F7 & F8 & F9 & F10 & F11).
        change (rem kp) with rem' in F1. change (lun kp) with (un_new ++ skipped) in F9. change (leof kp) with (leof k) in F10. change (kstate kp) with (kstate k) in F11.
        set (k2 := fill_next o kp) in *.
        assert (Hqrv : cmp_lex (kvl q) rv <> Lt) by exact Hhd.
        assert (Hpl2 : pendl k2 = rest2) by (unfold pendl; rewrite F4, F5; apply opt_hd_tl).
        assert (Hrest' : q :: rem' = (q :: eqs) ++ rest2) by (cbn; now rewrite F1).
        assert (HinB2 : forall l, In l (q :: eqs) -> In l L) by (intros l Hl; apply HinR; rewrite Hrest'; apply in_or_app; left; exact Hl).
        assert (HinR2 : forall l, In l rest2 -> In l L) by (intros l Hl; apply HinR; rewrite Hrest'; apply in_or_app; right; exact Hl).
        assert (Hqlen : List.length (kvl q) = List.length rv).
        { rewrite (proj2 (lkey_kv q (HinR q (or_introl eq_refl)))). symmetry. eapply rkey_len; eauto. }
        (* the invariant for either outcome *)
        assert (HM : forall kf, Inv kf -> kstate kf <> 0%nat -> brecs kf = brecs k2 -> peek kf = peek k2 -> rem kf = rem k2 ->
                                leof kf = leof k2 -> bvals kf = bvals k2 -> MInv kf Rs).
        { intros kf A1 A2 A3 A4 A5 A6 A7. split; [exact A1|]. split; [exact A2|].
          split; [exists Done'; split; [|apply (below_tail _ r); exact BD]|].
          - rewrite HL'. unfold Pl, pendl. rewrite A3, A4, A5. fold (pendl k2). rewrite Hpl2, F2. exact (f_equal (app Done') Hrest').
          - split.
            + rewrite A4, A5, A6, F4, F5, F10. intros Hn0. destruct rest2; [split; reflexivity|discriminate].
            + rewrite A7, F7, A3, F2. split; [discriminate|]. split; [exact F3|].
              unfold pendl. rewrite A4, A5. fold (pendl k2). rewrite Hpl2. exact F6. }
        rewrite F2, F7.
        assert (Hr2 : forall l, In l rest2 -> cmp_lex (kvl l) rv <> Eq).
        { intros l Hl E. apply cmp_lex_eq in E; [|rewrite (proj2 (lkey_kv l (HinR2 l Hl))); symmetry; eapply rkey_len; eauto].
          apply Hqrv. rewrite <- E. apply F6. exact Hl. }
        assert (Hkm2 : forall l, In l rest2 -> In l L /\ km rv l = false).
        { intros l Hl. split; [auto|]. apply (km_false_of_ne r rv Rs l HROK Hk (HinR2 l Hl)). apply Hr2. exact Hl. }
        destruct (cmp_lex (kvl q) rv) eqn:Hq; [| congruence |]; cbn [fst snd].
        + (* the new bucket has the right key: paired *)
          assert (Eq_ : kvl q = rv) by (apply cmp_lex_eq; auto).
          assert (HkmB : forall l, In l (q :: eqs) -> In l L /\ km rv l = true).
          { intros l Hl. split; [auto|]. apply km_eq; [auto|]. rewrite (F3 l Hl). exact Eq_. }
          split; [|split; [|split]].
          * apply HM; try reflexivity; [apply clear_lun_Inv, set_state_Inv; intros E; exfalso; change (bvals (set_paired k2)) with (bvals k2) in E; rewrite F7 in E; discriminate|].
            change (kstate (clear_lun (set_state (set_paired k2)))) with (compute_state (set_paired k2)). apply compute_nonzero.
            intros E. change (bvals (set_paired k2)) with (bvals k2) in E. rewrite F7 in E. discriminate.
          * rewrite HL', Hrest', !lefts_app, HnoD. cbn [app brecs set_state set_paired]. rewrite F2.
            rewrite (lefts_all rv (q :: eqs)) by (intros l Hl; apply HkmB; exact Hl).
            rewrite (lefts_none rv rest2) by (intros l Hl; apply Hkm2; exact Hl). now rewrite app_nil_r.
          * intros _. cbn [brecs set_state set_paired]. rewrite F2. discriminate.
          * cbn [lun set_state set_paired clear_lun]. rewrite F9. unfold pend at 1. cbn [bpaired set_state set_paired app].
            change (pendl (set_state (set_paired k2))) with (pendl k2). rewrite Hpl2.
            rewrite Hpend, filter_app, Hrel, Hrest', filter_app.
            rewrite (filter_unm_hit r rv Rs (q :: eqs) Hk HkmB). cbn [app].
            rewrite (filter_unm_skip r rv Rs rest2 Hk Hkm2). rewrite Hlun. rewrite <- !app_assoc. apply Permutation_refl.
        + (* the new bucket is above the right key: not paired *)
          assert (HkmB : forall l, In l (q :: eqs) -> In l L /\ km rv l = false).
          { intros l Hl. split; [auto|]. apply (km_false_of_ne r rv Rs l HROK Hk (HinB2 l Hl)). rewrite (F3 l Hl), Hq. discriminate. }
          split; [|split; [|split]].
          * apply HM; try reflexivity; [apply clear_lun_Inv, set_state_Inv; intros E; exfalso; rewrite F7 in E; discriminate|].
            change (kstate (clear_lun (set_state k2))) with (compute_state k2). apply compute_nonzero. intros E. rewrite F7 in E. discriminate.
          * rewrite HL', Hrest', !lefts_app, HnoD.
            rewrite (lefts_none rv (q :: eqs)) by (intros l Hl; apply HkmB; exact Hl).
            rewrite (lefts_none rv rest2) by (intros l Hl; apply Hkm2; exact Hl). reflexivity.
          * discriminate.
          * cbn [lun set_state clear_lun]. rewrite F9. change (pend (set_state k2)) with (pend k2).
            rewrite Hpend, filter_app, Hrel, Hrest'. unfold pend. rewrite F8, F2, Hpl2.
            rewrite (filter_unm_skip r rv Rs ((q :: eqs) ++ rest2) Hk).
            -- rewrite Hlun. rewrite <- !app_assoc. apply Permutation_refl.
            -- intros l Hl. apply in_app_or in Hl. destruct Hl; auto.
    Qed.
  End Step.

  (* ---------------------------------------------------------------- one right record with a key, from an established state *)
  Lemma core_step k r rv Rs :
    MInv k (r :: Rs) -> ROK (r :: Rs) -> rkey o r = Some rv ->
    StepOK k r rv Rs (fst (fjb_core rv k)) (snd (fjb_core rv k)).
  Proof.
    intros (HI & H0 & (Done & HL & Hbel) & Hpk & Hb) HROK Hk.
    destruct (bvals k) as [bv|] eqn:Hbv.
    - destruct Hb as (Hne & Hbk & Hab). unfold fjb_core. rewrite (state12 k HI H0), Hbv.
      destruct (cmp_lex bv rv) eqn:Hc.
      + eapply step_eq; eauto.
      + eapply step_lt; eauto.
      + eapply step_gt; eauto.
    - destruct Hb as [Hbr Hp]. eapply step_eof; eauto.
  Qed.

  (* ---------------------------------------------------------------- the prefill block *)
  Definition Init (k : keeper) : Prop :=
    kstate k = 0%nat /\ bvals k = None /\ brecs k = [] /\ peek k = None /\ lun k = [] /\ leof k = false /\ rem k = L /\ bpaired k = false.

  Lemma Init_Inv k : Init k -> Inv k.
  Proof. intros (A1 & A2 & A3 & A4 & A5 & A6 & A7 & A8). split; [unfold compute_state; now rewrite A1, A2, A6|intros _ _; exact A4]. Qed.

  Lemma block_established k Rs : Init k -> MInv (block k) Rs /\ lun (block k) = [] /\ pend (block k) = L.
  Proof.
    intros (A1 & A2 & A3 & A4 & A5 & A6 & A7 & A8). unfold block. rewrite A1. cbn [Nat.eqb].
    unfold prepare_first. rewrite A7, A5.
    rewrite skip_keyless_keyed by (apply Forall_forall; exact HK). rewrite A2, A3, A8, A6, A1.
    destruct (hd_opt L) as [q|] eqn:Eh.
    - assert (EL : L = q :: tl L) by (destruct L; [discriminate|injection Eh as ->; reflexivity]).
      set (rem' := tl L) in *. unfold maybe_fill. cbn [peek].
      set (kp := mkKeeper (Some q) None [] false [] rem' false 0).
      assert (HinR : forall l, In l (q :: rem kp) -> In l L) by (intros l H; rewrite EL; exact H).
      assert (Hss : StronglySorted (fun a b => kle (kvl a) (kvl b)) (q :: rem kp)) by (change (rem kp) with rem'; rewrite <- EL; exact HsL).
      destruct (fill_spec kp q eq_refl eq_refl HinR Hss) as (eqs & rest2 & F1 & F2 & F3 & F4 & F5 & F6 & F7 & F8 & F9 & F10 & F11).
      change (rem kp) with rem' in F1. change (lun kp) with (@nil record) in F9. change (leof kp) with false in F10.
      set (k2 := fill_next o kp) in *.
      assert (Hpl2 : pendl k2 = rest2) by (unfold pendl; rewrite F4, F5; apply opt_hd_tl).
      assert (HP : brecs k2 ++ pendl k2 = L) by (rewrite F2, Hpl2, EL; cbn; now rewrite F1).
      split; [|split].
      + split; [apply set_state_Inv; intros E; exfalso; rewrite F7 in E; discriminate|].
        split; [change (kstate (set_state k2)) with (compute_state k2); apply compute_nonzero; intros E; rewrite F7 in E; discriminate|].
        split; [exists []; split; [symmetry; exact HP|intros l r rv []]|].
        split.
        * change (peek (set_state k2)) with (peek k2). change (rem (set_state k2)) with (rem k2). change (leof (set_state k2)) with (leof k2).
          rewrite F4, F5, F10. intros Hn0. destruct rest2; [split; reflexivity|discriminate].
        * change (bvals (set_state k2)) with (bvals k2). rewrite F7. change (brecs (set_state k2)) with (brecs k2). rewrite F2.
          split; [discriminate|]. split; [exact F3|]. change (pendl (set_state k2)) with (pendl k2). rewrite Hpl2. exact F6.
      + change (lun (set_state k2)) with (lun k2). exact F9.
      + change (pend (set_state k2)) with (pend k2). unfold pend. rewrite F8. exact HP.
    - assert (EL : L = []) by (destruct L; [reflexivity|discriminate]).
      assert (Et : tl L = []) by (rewrite EL; reflexivity). rewrite Et. unfold maybe_fill. cbn [peek].
      split; [|split; [reflexivity|]].
      + split; [apply set_state_Inv; intros _ H; discriminate H|]. split; [cbn; discriminate|].
        split; [exists []; split; [rewrite EL; reflexivity|intros l r rv []]|]. split; [intros _; split; reflexivity|]. cbn. split; reflexivity.
      + rewrite EL. reflexivity.
  Qed.

  Lemma block_noop k : kstate k <> 0%nat -> block k = k.
  Proof. intros H. unfold block. destruct (Nat.eqb (kstate k) 0) eqn:E; [apply PeanoNat.Nat.eqb_eq in E; congruence|reflexivity]. Qed.

  Definition GInv (k : keeper) (Rs : list record) : Prop := Init k \/ MInv k Rs.

  Lemma Init_pend k : Init k -> lun k = [] /\ pend k = L.
  Proof. intros (A1 & A2 & A3 & A4 & A5 & A6 & A7 & A8). split; [exact A5|]. unfold pend, pendl. now rewrite A8, A3, A4, A7. Qed.

  Lemma keyed_step k r rv Rs :
    GInv k (r :: Rs) -> ROK (r :: Rs) -> rkey o r = Some rv ->
    MInv (snd (sorted_step o k r)) Rs /\ Permutation (fst (sorted_step o k r) ++ Spec (snd (sorted_step o k r)) Rs) (Spec k (r :: Rs)).
  Proof.
    intros HG HROK Hk. apply (step_assemble k r rv Rs Hk). rewrite fjb_unfold.
    destruct HG as [HInit|HM].
    - destruct (block_established k (r :: Rs) HInit) as (HM1 & Hl1 & Hp1). destruct (Init_pend k HInit) as [Hl0 Hp0].
      destruct (core_step (block k) r rv Rs HM1 HROK Hk) as (B1 & B2 & B3 & B4).
      split; [exact B1|]. split; [exact B2|]. split; [exact B3|]. now rewrite Hl0, Hp0, <- Hl1, <- Hp1.
    - rewrite (block_noop k (proj1 (proj2 HM))). apply core_step; auto.
  Qed.

  Lemma keyless_step k r Rs :
    GInv k (r :: Rs) -> rkey o r = None ->
    GInv (snd (sorted_step o k r)) Rs /\ Permutation (fst (sorted_step o k r) ++ Spec (snd (sorted_step o k r)) Rs) (Spec k (r :: Rs)).
  Proof.
    intros HG Hk. unfold sorted_step. fold (rkey o r). rewrite Hk. cbn [fst snd negb andb].
    split.
    - destruct HG as [HInit|(A1 & A2 & (Done & A3 & A4) & A5 & A6)].
      + left. destruct HInit as (B1 & B2 & B3 & B4 & B5 & B6 & B7 & B8). repeat split; auto.
      + right. split; [apply clear_lun_Inv; exact A1|]. split; [exact A2|]. split; [exists Done; split; [exact A3|apply (below_tail _ r); exact A4]|]. split; assumption.
    - unfold Spec. cbn [flat_map]. change (pend (clear_lun k)) with (pend k). change (lun (clear_lun k)) with (@nil record). cbn [app].
      change (brecs (clear_lun k)) with (brecs k).
      assert (HX : right_out o L r = if ur o then [unpaired_right o r] else []) by (unfold right_out; now rewrite Hk).
      rewrite HX. set (X := if ur o then [unpaired_right o r] else []). set (F := flat_map (right_out o L) Rs).
      assert (HF : filter (unm (r :: Rs)) (pend k) = filter (unm Rs) (pend k)).
      { apply filter_ext. intros l. unfold unm. now rewrite matched_cons_keyless. }
      rewrite HF. destruct (ul o).
      + rewrite ?app_nil_r, <- !app_assoc, map_app. cbn [app].
        rewrite !(app_assoc X F). apply Permutation_app_swap_app.
      + cbn [app]. rewrite ?app_nil_r. apply Permutation_refl.
  Qed.

  (* ---------------------------------------------------------------- end of the right stream *)
  Lemma final_flush k : GInv k [] -> lun (snd (find_join_bucket o None k)) = lun k ++ pend k.
  Proof.
    intros HG. change (find_join_bucket o None k) with (false, set_state (mark_remaining (block k))). cbn [snd].
    assert (E : lun (block k) ++ pend (block k) = lun k ++ pend k).
    { destruct HG as [HInit|HM].
      - destruct (block_established k [] HInit) as (_ & Hl1 & Hp1). destruct (Init_pend k HInit) as [Hl0 Hp0]. now rewrite Hl0, Hp0, Hl1, Hp1.
      - now rewrite (block_noop k (proj1 (proj2 HM))). }
    rewrite <- E. unfold mark_remaining, pend, pendl. cbn [lun set_state].
    destruct (bpaired (block k)), (peek (block k)); cbn [opt_list app]; rewrite <- ?app_assoc; reflexivity.
  Qed.

  Theorem sorted_run_spec Rs : forall k, GInv k Rs -> ROK Rs ->
    Permutation (fst (sorted_run o k Rs)
                 ++ (if ul o then map (unpaired_left o) (lun (snd (find_join_bucket o None (snd (sorted_run o k Rs))))) else []))
                (Spec k Rs).
  Proof.
    induction Rs as [|r Rs IH]; intros k HG HR.
    - cbn [sorted_run fst snd app]. unfold Spec. cbn [flat_map app]. rewrite (final_flush k HG).
      rewrite (filter_all (unm []) (pend k)); [apply Permutation_refl|]. intros l _. unfold unm, matched. now destruct (lkey o l).
    - cbn [sorted_run]. destruct (sorted_step o k r) as [e k'] eqn:S.
      assert (Hstep : GInv k' Rs /\ Permutation (e ++ Spec k' Rs) (Spec k (r :: Rs))).
      { destruct (rkey o r) as [rv|] eqn:Hk.
        - destruct (keyed_step k r rv Rs HG HR Hk) as [A B]. rewrite S in A, B. cbn [fst snd] in A, B. split; [right; exact A|exact B].
        - destruct (keyless_step k r Rs HG Hk) as [A B]. rewrite S in A, B. cbn [fst snd] in A, B. split; assumption. }
      destruct Hstep as [HG' HP]. specialize (IH k' HG' (ROK_tail r Rs HR)).
      destruct (sorted_run o k' Rs) as [es k''] eqn:R. cbn [fst snd] in *.
      eapply Permutation_trans; [|exact HP]. rewrite <- app_assoc. apply Permutation_app_head. exact IH.
  Qed.
End Merge.

(* ------------------------------------------------------------------ sorted-input mode = default mode, as multisets *)
Definition left_sorted (o : opts) (L : list record) : Prop := StronglySorted (fun a b => kle (kv o a) (kv o b)) L.

Theorem join_sorted_perm_unsorted o left right :
  (forall l, In l (lefts o left) -> has_keys o l = true) ->
  List.length (lj o) = List.length (rj o) ->
  left_sorted o (lefts o left) ->
  ROK o (lefts o left) right ->
  Permutation (join_sorted o left right) (join_unsorted o left right).
Proof.
  intros HK Hn HsL HR. set (L := lefts o left).
  set (k0 := mkKeeper None None [] false [] (map (keep_left o) left) false 0).
  assert (HI : Init L k0) by (repeat split; reflexivity).
  pose proof (sorted_run_spec o L HK Hn HsL right k0 (or_introl HI) HR) as S.
  unfold join_sorted. fold k0. destruct (sorted_run o k0 right) as [out k] eqn:R. cbn [fst snd] in S.
  destruct (find_join_bucket o None k) as [b k'] eqn:F. cbn [snd] in S.
  eapply Permutation_trans; [exact S|]. unfold Spec. change (lun k0) with (@nil record). cbn [app].
  assert (Hp : pend k0 = L) by reflexivity. rewrite Hp.
  destruct (ul o) eqn:Hul.
  - destruct (join_unsorted_left_tail o left right Hul) as (src & E & P). rewrite E. apply Permutation_app_head.
    apply Permutation_map. apply Permutation_sym. exact P.
  - destruct (join_unsorted_in_order o left right) as (tail & E & T). rewrite E, (T Hul). apply Permutation_refl.
Qed.

(* one join field: the joined key text is the key, so the identification hypothesis is automatic *)
Lemma inj_on_single o L Rs : List.length (lj o) = 1%nat -> List.length (rj o) = 1%nat ->
  (forall l, In l L -> has_keys o l = true) -> inj_on o L Rs.
Proof.
  intros H1 H2 HK l r rv Hl Hr Hk E.
  assert (Lr : List.length rv = 1%nat).
  { unfold rkey, key_of in Hk. destruct (selected (rj o) r) as [vs|] eqn:S; [|discriminate].
    destruct (ie o && any_empty vs); [discriminate|]. injection Hk as <-. rewrite <- H2. eapply selected_length; eauto. }
  assert (Ll : List.length (kv o l) = 1%nat).
  { pose proof (HK l Hl) as H. unfold has_keys, key_of in H. unfold kv, vals_of. destruct (selected (lj o) l) as [vs|] eqn:S; [|discriminate].
    rewrite <- H1. eapply selected_length; eauto. }
  destruct rv as [|x [|? ?]]; try discriminate. destruct (kv o l) as [|y [|? ?]]; try discriminate. cbn in E. now subst.
Qed.

Corollary join_sorted_perm_unsorted_single o left right :
  List.length (lj o) = 1%nat -> List.length (rj o) = 1%nat ->
  (forall l, In l (lefts o left) -> has_keys o l = true) ->
  left_sorted o (lefts o left) ->
  StronglySorted (rle o) right ->
  Permutation (join_sorted o left right) (join_unsorted o left right).
Proof.
  intros H1 H2 HK HsL HsR. apply join_sorted_perm_unsorted; auto; [congruence|].
  split; [exact HsR|apply inj_on_single; auto].
Qed.
