(* C13, formAndEmitPairs: the layout of a paired record as an explicit list equation.
   The paired record is the candidate list
       join fields under their output names (-j) with the LEFT values, in -l order
    ++ left  non-join fields, left-record order,  names prefixed by --lp
    ++ right non-join fields, right-record order, names prefixed by --rp
   written into an empty record by PutCopy (overwrite in place, else append).  In this tree --lp/--rp default to the empty
   string and, when given, are applied to EVERY non-join field of their side (not only to colliding names).
   When the candidate names are distinct the record IS the candidate list; in general its names are the candidates'
   names in first-occurrence order and each name carries its LAST candidate value (a colliding right field overwrites
   the left value at the left field's position). *)
From Miller Require Import Base.Bytes Base.Record C13.Model C13.Proofs.
From Coq Require Import Lia.

Definition put_all (xs : list field) (out : record) : record := fold_left (fun out kv => put (fst kv) (snd kv) out) xs out.

Fixpoint join_cands (ln on : list bytes) (l : record) : list field :=
  match ln, on with
  | a :: ln', b :: on' => (match get a l with Some v => [(b, v)] | None => [] end) ++ join_cands ln' on' l
  | _, _ => []
  end.
Definition other_cands (skip : list bytes) (prefix : bytes) (r : record) : list field :=
  map (fun kv => (prefix ++ fst kv, snd kv)) (filter (fun kv => negb (mem (fst kv) skip)) r).
Definition cands (o : opts) (l r : record) : list field :=
  join_cands (lj o) (oj o) l ++ other_cands (lj o) (lp o) l ++ other_cands (rj o) (rp o) r.

Lemma put_all_app xs ys out : put_all (xs ++ ys) out = put_all ys (put_all xs out).
Proof. unfold put_all. apply fold_left_app. Qed.

Lemma put_join_fields_cands ln : forall on l out, put_join_fields ln on l out = put_all (join_cands ln on l) out.
Proof.
  induction ln as [|a ln IH]; intros [|b on] l out; cbn [put_join_fields join_cands]; try reflexivity.
  rewrite put_all_app, IH. destruct (get a l); reflexivity.
Qed.

Lemma put_others_cands skip prefix r : forall out, put_others skip prefix r out = put_all (other_cands skip prefix r) out.
Proof.
  unfold put_others, other_cands, put_all. induction r as [|[k v] r IH]; intros out; cbn [fold_left filter map fst snd]; [reflexivity|].
  destruct (mem k skip); cbn [negb map fold_left fst snd]; apply IH.
Qed.

(* the list equation, ALL options and records *)
Theorem compose_layout o l r : compose o l r = put_all (cands o l r) [].
Proof.
  unfold compose, cands. now rewrite !put_all_app, put_join_fields_cands, !put_others_cands.
Qed.

(* PutCopy into a record of distinct fresh names is concatenation *)
Lemma put_all_fresh xs : forall out, NoDup (keys out ++ map fst xs) -> put_all xs out = out ++ xs.
Proof.
  induction xs as [|[k v] xs IH]; intros out H; cbn [put_all fold_left]; [now rewrite app_nil_r|].
  cbn [fst snd map] in *.
  assert (Hni : ~ In k (keys out)) by (apply NoDup_remove_2 in H; intros Hin; apply H; apply in_or_app; left; exact Hin).
  rewrite (put_fresh k v out Hni). fold (put_all xs (out ++ [(k, v)])). rewrite IH.
  - now rewrite <- app_assoc.
  - unfold keys in *. rewrite map_app. cbn [map fst]. rewrite <- app_assoc. exact H.
Qed.

Corollary compose_layout_distinct o l r : NoDup (map fst (cands o l r)) -> compose o l r = cands o l r.
Proof. intros H. rewrite compose_layout. now rewrite put_all_fresh. Qed.

(* with collisions: names in first-occurrence order, each with its last candidate value *)
Fixpoint fresh_keys (seen : list bytes) (xs : list field) : list bytes :=
  match xs with
  | [] => []
  | (k, _) :: t => if mem k seen then fresh_keys seen t else k :: fresh_keys (seen ++ [k]) t
  end.

Lemma has_mem_keys k (r : record) : has k r = mem k (keys r).
Proof. unfold has. induction r as [|[k' v'] r IH]; cbn; [reflexivity|]. destruct (beqb k k'); [reflexivity|exact IH]. Qed.

Lemma keys_put_all xs : forall out, keys (put_all xs out) = keys out ++ fresh_keys (keys out) xs.
Proof.
  induction xs as [|[k v] xs IH]; intros out; cbn [put_all fold_left fresh_keys fst snd]; [now rewrite app_nil_r|].
  fold (put_all xs (put k v out)). rewrite IH. rewrite <- has_mem_keys. destruct (has k out) eqn:E.
  - now rewrite (keys_put_present k v out E).
  - rewrite (keys_put_absent k v out E). now rewrite <- app_assoc.
Qed.

Lemma get_app_ k (a b : record) : get k (a ++ b) = match get k a with Some v => Some v | None => get k b end.
Proof. induction a as [|[k' v'] a IH]; cbn; [reflexivity|]. destruct (beqb k k'); [reflexivity|exact IH]. Qed.

Lemma get_put_all k xs : forall out,
  get k (put_all xs out) = match get k (rev xs) with Some v => Some v | None => get k out end.
Proof.
  induction xs as [|[k' v'] xs IH]; intros out; cbn [put_all fold_left rev fst snd]; [reflexivity|].
  fold (put_all xs (put k' v' out)). rewrite IH, get_app_. destruct (get k (rev xs)); [reflexivity|].
  cbn [get]. destruct (beqb_spec k k') as [->|Hne]; [apply get_put_same|]. apply get_put_other. congruence.
Qed.

Theorem compose_names_and_values o l r :
  keys (compose o l r) = fresh_keys [] (cands o l r)
  /\ forall k, get k (compose o l r) = get k (rev (cands o l r)).
Proof.
  rewrite compose_layout. split; [apply keys_put_all|]. intros k. rewrite get_put_all. now destruct (get k (rev (cands o l r))).
Qed.

(* when the left record has all its join fields (it always has when it is paired) the join part is the zip of -j names
   with the left values *)
Lemma join_cands_all ln : forall on l vs, List.length ln = List.length on -> selected ln l = Some vs -> join_cands ln on l = combine on vs.
Proof.
  induction ln as [|a ln IH]; intros [|b on] l vs Hlen Hs; cbn in *; try discriminate; [injection Hs as <-; reflexivity|].
  destruct (get a l) as [v|]; [|discriminate]. destruct (selected ln l) as [vs'|] eqn:E; [|discriminate]. injection Hs as <-.
  cbn. f_equal. apply IH; [lia|exact E].
Qed.
