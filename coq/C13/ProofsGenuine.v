(* C13, sorted-input mode (-s) on ALL inputs, sorted or not: the pairs it emits are genuine matches -- every left record
   of the bucket a right record is paired with has exactly that right record's join values (field by field). *)
From Miller Require Import Base.Bytes Base.Record C13.Model C13.Proofs C13.ProofsSorted C13.Order C13.ProofsMerge C13.ProofsKeyless C13.ProofsOnce.
From Coq Require Import Permutation Lia.

Section Genuine.
  Variable o : opts.

  (* the bucket's records all carry the bucket's values, which have one value per join field *)
  Definition VInv (k : keeper) : Prop :=
    match bvals k with
    | Some bv => List.length bv = List.length (lj o) /\ Forall (fun l => cmp_lex bv (vals_of o l) = Eq) (brecs k)
    | None => True
    end.

  Lemma fill_loop_vals bv rm : forall recs un pk rm' recs' un' eof,
    fill_loop o bv rm recs un = (pk, rm', recs', un', eof) ->
    Forall (fun l => cmp_lex bv (vals_of o l) = Eq) recs -> Forall (fun l => cmp_lex bv (vals_of o l) = Eq) recs'.
  Proof.
    induction rm as [|q rm IH]; intros recs un pk rm' recs' un' eof H HF; cbn [fill_loop] in H.
    - injection H as <- <- <- <- <-. exact HF.
    - destruct (has_keys o q).
      + destruct (cmp_lex bv (vals_of o q)) eqn:E.
        * eapply IH; [exact H|]. apply Forall_app. split; [exact HF|]. constructor; [exact E|constructor].
        * injection H as <- <- <- <- <-. exact HF.
        * injection H as <- <- <- <- <-. exact HF.
      + eapply IH; eauto.
  Qed.

  Lemma keyed_vals l : has_keys o l = true -> key_of (ie o) (lj o) l = Some (vals_of o l) /\ List.length (vals_of o l) = List.length (lj o).
  Proof.
    unfold has_keys, vals_of, key_of. destruct (selected (lj o) l) as [vs|] eqn:S; [|discriminate].
    destruct (ie o && any_empty vs); [discriminate|]. intros _. split; [reflexivity|]. eapply selected_length; eauto.
  Qed.

  Lemma maybe_fill_VInv k : KInv o k -> bvals k = None -> brecs k = [] -> VInv (maybe_fill o k).
  Proof.
    intros [_ Hp] Hbv Hb. unfold maybe_fill. destruct (peek k) as [p|] eqn:Ep; [|unfold VInv; now rewrite Hbv].
    cbn in Hp. unfold fill_next. rewrite Ep, Hb. cbn [app].
    destruct (fill_loop o (vals_of o p) (rem k) [p] (lun k)) as [[[[pk rm] recs] un] eof] eqn:F.
    unfold VInv. cbn. split; [apply keyed_vals; exact Hp|].
    eapply fill_loop_vals; [exact F|]. constructor; [apply cmp_lex_refl|constructor].
  Qed.

  Lemma VInv_same k k2 : bvals k2 = bvals k -> brecs k2 = brecs k -> VInv k -> VInv k2.
  Proof. unfold VInv. intros -> ->. auto. Qed.

  (* FindJoinBucket keeps the invariant, and a paired bucket carries the right record's values *)
  Lemma fjb_genuine rv k :
    Inv k -> BInv k -> KInv o k -> VInv k -> List.length rv = List.length (lj o) ->
    VInv (snd (find_join_bucket o (Some rv) k))
    /\ (fst (find_join_bucket o (Some rv) k) = true ->
        forall l, In l (brecs (snd (find_join_bucket o (Some rv) k))) -> key_of (ie o) (lj o) l = Some rv).
  Proof.
    intros HI HB HK HV Hlen.
    pose proof (fjb_comm o (Some rv) k HK) as (_ & HK' & _).
    revert HK'. unfold find_join_bucket.
    set (k1 := if Nat.eqb (kstate k) 0 then set_state (maybe_fill o (prepare_first o k)) else k).
    assert (H1 : Inv k1 /\ VInv k1 /\ KInv o k1 /\ BInv k1).
    { unfold k1. destruct (Nat.eqb (kstate k) 0) eqn:E; [|auto].
      pose proof (state0_bvals k HI E) as Hbv. destruct (proj1 HB Hbv) as [Hbp Hbr].
      destruct (prepare_first_bucket o k) as (A1 & A2 & A3).
      destruct (prepare_first_comm o k HK) as (_ & HK1 & _). destruct (maybe_fill_comm o _ HK1) as (_ & HK2 & _).
      assert (HB' : BInv (prepare_first o k)) by (unfold BInv; rewrite A1, A2, A3; exact HB).
      destruct (maybe_fill_BInv o (prepare_first o k) HB' ltac:(congruence)) as [B1 B2].
      split; [apply set_state_Inv, maybe_fill_inv2|]. split; [|split; [exact HK2|exact B1]].
      apply (VInv_same (maybe_fill o (prepare_first o k))); try reflexivity.
      apply maybe_fill_VInv; [exact HK1|congruence|congruence]. }
    destruct H1 as (HI1 & HV1 & HK1 & HB1). clearbody k1.
    assert (Pair : forall k2, VInv k2 -> KInv o k2 -> cmp_lex (match bvals k2 with Some b => b | None => [] end) rv = Eq -> bvals k2 <> None ->
                   forall l, In l (brecs k2) -> key_of (ie o) (lj o) l = Some rv).
    { intros k2 V2 [K2 _] Hc Hn l Hl. unfold VInv in V2. destruct (bvals k2) as [bv|]; [|congruence]. destruct V2 as [Lb Fb].
      rewrite Forall_forall in Fb, K2. specialize (Fb l Hl). specialize (K2 l Hl). destruct (keyed_vals l K2) as [Ek El].
      rewrite Ek. f_equal. apply cmp_lex_eq in Fb; [|congruence]. apply cmp_lex_eq in Hc; congruence. }
    destruct (Nat.eqb (kstate k1) 1 || Nat.eqb (kstate k1) 2) eqn:S12.
    - pose proof (state12_bvals k1 HI1 S12) as Hn1.
      destruct (cmp_lex (match bvals k1 with Some b => b | None => [] end) rv) eqn:Hc; cbn [fst snd]; intros HK'.
      + split; [exact HV1|]. intros _. apply (Pair k1); auto.
      + destruct (prepare_new_bucket o rv k1) as (N1 & N2 & N3).
        destruct (prepare_new_comm o rv k1 HK1) as (_ & HKn & _). destruct (maybe_fill_comm o _ HKn) as (_ & HK2 & _).
        pose proof (maybe_fill_VInv _ HKn N1 N2) as HV2.
        set (k2 := maybe_fill o (prepare_new o rv k1)) in *.
        assert (Hn2 : brecs k2 <> [] -> bvals k2 <> None).
        { unfold k2, maybe_fill. destruct (peek (prepare_new o rv k1)) as [p|] eqn:Ep.
          - intros _. apply (fill_next_bucket o _ p Ep).
          - intros H. rewrite N2 in H. contradiction. }
        destruct (brecs k2) eqn:Eb; cbn [fst snd] in *; [split; [exact HV2|discriminate]|].
        destruct (cmp_lex (match bvals k2 with Some b => b | None => [] end) rv) eqn:Hc2; cbn [fst snd] in *;
          (split; [exact HV2|]); try discriminate.
        intros _ l0 Hl0. change (In l0 (brecs k2)) in Hl0. apply (Pair k2); auto. apply Hn2. discriminate.
      + split; [exact HV1|discriminate].
    - cbn [fst snd]. intros _. split; [exact HV1|discriminate].
  Qed.

  Hypothesis Hn : List.length (lj o) = List.length (rj o).

  Definition genuine (s : list record * list record) (r : record) : Prop :=
    snd s <> [] -> exists rv, rkey o r = Some rv /\ forall l, In l (snd s) -> lkey o l = Some rv.

  Theorem steps_genuine right : forall k, Inv k -> BInv k -> KInv o k -> VInv k -> Forall2 genuine (steps_of o k right) right.
  Proof.
    induction right as [|r t IH]; intros k HI HB HK HV; cbn [steps_of]; constructor.
    - unfold genuine, step_paired, step_keeper, rkey, lkey. cbn [snd].
      destruct (key_of (ie o) (rj o) r) as [vs|] eqn:Ek; [|intros H; contradiction].
      assert (Lv : List.length vs = List.length (lj o)).
      { unfold key_of in Ek. destruct (selected (rj o) r) as [ws|] eqn:S; [|discriminate].
        destruct (ie o && any_empty ws); [discriminate|]. injection Ek as <-. rewrite Hn. eapply selected_length; eauto. }
      destruct (fjb_genuine vs k HI HB HK HV Lv) as [_ G].
      destruct (fst (find_join_bucket o (Some vs) k)); [|intros H; contradiction].
      intros _. exists vs. split; [reflexivity|]. apply G. reflexivity.
    - destruct (step_account o k r HI HB) as (D & _ & HI' & _ & _ & _ & HB' & _).
      apply IH; [apply clear_lun_Inv; exact HI'|exact HB'| |].
      + unfold step_keeper. destruct (key_of (ie o) (rj o) r) as [vs|]; [|exact HK].
        destruct (fjb_comm o (Some vs) k HK) as (_ & K' & _). exact K'.
      + unfold step_keeper. destruct (key_of (ie o) (rj o) r) as [vs|] eqn:Ek; [|exact HV].
        assert (Lv : List.length vs = List.length (lj o)).
        { unfold key_of in Ek. destruct (selected (rj o) r) as [ws|] eqn:S; [|discriminate].
          destruct (ie o && any_empty ws); [discriminate|]. injection Ek as <-. rewrite Hn. eapply selected_length; eauto. }
        destruct (fjb_genuine vs k HI HB HK HV Lv) as [V' _]. exact V'.
  Qed.
End Genuine.

(* the exactly-once theorem with genuineness of the pairs added *)
Theorem join_sorted_exactly_once_genuine o left right :
  ul o = true -> List.length (lj o) = List.length (rj o) ->
  exists (steps : list (list record * list record)) (final : list record) (Bs : list (list record)),
    join_sorted o left right = emit_all o steps right ++ map (unpaired_left o) final
    /\ Forall2 (genuine o) steps right
    /\ Permutation (lefts o left) (List.concat (map fst steps) ++ final ++ List.concat Bs)
    /\ (forall B, In B Bs -> B <> [] /\ In B (map snd steps))
    /\ (forall s, In s steps -> snd s <> [] -> In (snd s) Bs).
Proof.
  intros Hul Hn. set (k0 := keeper0 o left).
  destruct (run_emit o right k0 (keeper0_Inv o left) (keeper0_BInv o left) Hul) as [E1 E2].
  destruct (run_account o right k0 (keeper0_Inv o left) (keeper0_BInv o left)) as (Bs & Q1 & _ & Q3 & Q4).
  exists (steps_of o k0 right), (final_of o k0 right), Bs.
  split; [|split; [|split; [|split; [|exact Q4]]]].
  - unfold join_sorted. fold (keeper0 o left). fold k0. unfold final_of. rewrite <- E1.
    destruct (sorted_run o k0 right) as [out k]. cbn [fst snd]. destruct (find_join_bucket o None k) as [b k']. cbn [snd]. now rewrite Hul.
  - apply steps_genuine; [exact Hn|apply keeper0_Inv|apply keeper0_BInv|split; [constructor|exact I]|exact I].
  - eapply Permutation_trans; [|exact Q1]. unfold pool, k0, keeper0, lefts. cbn. apply Permutation_refl.
  - intros B HB. destruct (Q3 B HB) as [Hne [[Hp _]|Hin]]; [discriminate Hp|]. split; assumption.
Qed.
