(* C13, sorted-input mode with key-less LEFT records (records lacking a join field, or holding an empty one under
   --ignore-empty), anywhere in the left file.  The JoinBucketKeeper routes such records straight to leftUnpaireds in
   each of its read loops (prepareForFirstJoinBucket, fillNextJoinBucket, prepareForNewJoinBucket) and never compares
   them.  Proved here as a commutation: erasing the key-less records from the keeper (from the unread part of the left
   file and from leftUnpaireds) commutes with every keeper operation, and the key-less records are conserved in order.
   Hence the -s output on a left file L is, as a multiset, the -s output on the keyed records of L plus (under --ul)
   the unpaired forms of the key-less ones -- exactly as in the default mode.  With C13/ProofsMerge.v this gives
   sorted = unsorted on every left file whose KEYED records are sorted. *)
From Miller Require Import Base.Bytes Base.Record C13.Model C13.Proofs C13.ProofsSorted C13.Order C13.ProofsMerge.
From Coq Require Import Permutation Sorted Lia.

Section Keyless.
  Variable o : opts.
  Notation hk := (has_keys o).
  Definition keyed (l : list record) : list record := filter (has_keys o) l.
  Definition keyless (l : list record) : list record := filter (fun q => negb (has_keys o q)) l.

  Lemma keyed_app a b : keyed (a ++ b) = keyed a ++ keyed b. Proof. apply filter_app. Qed.
  Lemma keyless_app a b : keyless (a ++ b) = keyless a ++ keyless b. Proof. apply filter_app. Qed.
  Lemma keyed_id l : Forall (fun q => hk q = true) l -> keyed l = l.
  Proof. unfold keyed. induction 1 as [|q l Hq _ IH]; cbn; [reflexivity|]. now rewrite Hq, IH. Qed.
  Lemma keyless_nil l : Forall (fun q => hk q = true) l -> keyless l = [].
  Proof. unfold keyless. induction 1 as [|q l Hq _ IH]; cbn; [reflexivity|]. now rewrite Hq. Qed.
  Lemma keyed_one q : hk q = true -> keyed [q] = [q]. Proof. intros H. cbn. now rewrite H. Qed.
  Lemma keyless_one q : hk q = true -> keyless [q] = []. Proof. intros H. cbn. now rewrite H. Qed.
  Lemma keyed_length l : (List.length (keyed l) <= List.length l)%nat.
  Proof. unfold keyed. induction l as [|q l IH]; cbn; [lia|]. destruct (hk q); cbn; lia. Qed.
  Lemma keyed_keyless_perm l : Permutation l (keyed l ++ keyless l).
  Proof.
    unfold keyed, keyless. induction l as [|q l IH]; cbn; [constructor|]. destruct (hk q); cbn.
    - now constructor.
    - apply Permutation_cons_app. exact IH.
  Qed.
  Lemma keyed_keyed l : Forall (fun q => hk q = true) (keyed l).
  Proof. apply Forall_forall. intros q H. apply filter_In in H. tauto. Qed.

  Definition okp (p : option record) : Prop := match p with Some q => hk q = true | None => True end.

  (* ---- the three read loops *)
  Lemma skip_keyless_comm rm : forall un p rm1 un1,
    skip_keyless o rm un = (p, rm1, un1) ->
    skip_keyless o (keyed rm) (keyed un) = (p, keyed rm1, keyed un1)
    /\ okp p /\ keyless un1 ++ keyless rm1 = keyless un ++ keyless rm
    /\ (p <> None -> (List.length rm1 < List.length rm)%nat).
  Proof.
    induction rm as [|q rm IH]; intros un p rm1 un1 H; cbn [skip_keyless] in H.
    - injection H as <- <- <-. cbn. repeat split; auto. congruence.
    - destruct (hk q) eqn:Hq.
      + injection H as <- <- <-. cbn. rewrite Hq. cbn. rewrite Hq. repeat split; auto.
      + destruct (IH _ _ _ _ H) as (A & B & C & D). cbn. rewrite Hq. cbn [negb].
        rewrite keyed_app in A. cbn in A. rewrite Hq, app_nil_r in A.
        rewrite keyless_app in C. cbn in C. rewrite Hq in C. cbn in C. rewrite <- app_assoc in C.
        repeat split; auto. intros Hp. specialize (D Hp). cbn. lia.
  Qed.

  Lemma fill_loop_comm bv rm : forall recs un pk rm1 recs1 un1 eof,
    fill_loop o bv rm recs un = (pk, rm1, recs1, un1, eof) ->
    fill_loop o bv (keyed rm) recs (keyed un) = (pk, keyed rm1, recs1, keyed un1, eof)
    /\ okp pk /\ (Forall (fun q => hk q = true) recs -> Forall (fun q => hk q = true) recs1)
    /\ keyless un1 ++ keyless rm1 = keyless un ++ keyless rm.
  Proof.
    induction rm as [|q rm IH]; intros recs un pk rm1 recs1 un1 eof H; cbn [fill_loop] in H.
    - injection H as <- <- <- <- <-. cbn. repeat split; auto.
    - destruct (hk q) eqn:Hq.
      + cbn. rewrite Hq. cbn [fill_loop negb]. rewrite Hq.
        destruct (cmp_lex bv (vals_of o q)) eqn:Hc.
        * destruct (IH _ _ _ _ _ _ _ H) as (A & B & C & D). repeat split; auto.
          intros Hr. apply C. apply Forall_app. split; [exact Hr|]. constructor; [exact Hq|constructor].
        * injection H as <- <- <- <- <-. cbn. repeat split; auto.
        * injection H as <- <- <- <- <-. cbn. repeat split; auto.
      + destruct (IH _ _ _ _ _ _ _ H) as (A & B & C & D). cbn. rewrite Hq. cbn [negb].
        rewrite keyed_app in A. cbn in A. rewrite Hq, app_nil_r in A.
        rewrite keyless_app in D. cbn in D. rewrite Hq in D. cbn in D. rewrite <- app_assoc in D.
        repeat split; auto.
  Qed.

  Lemma advance_comm rv fuel : forall fuel' p rm un p' rm' un' eof,
    (List.length rm < fuel)%nat -> (List.length (keyed rm) < fuel')%nat -> hk p = true ->
    advance fuel o rv p rm un = (p', rm', un', eof) ->
    advance fuel' o rv p (keyed rm) (keyed un) = (p', keyed rm', keyed un', eof)
    /\ okp p' /\ keyless un' ++ keyless rm' = keyless un ++ keyless rm.
  Proof.
    induction fuel as [|fuel IH]; intros fuel' p rm un p' rm' un' eof Hf Hf' Hp H; [lia|].
    destruct fuel' as [|fuel']; [lia|]. cbn [advance] in *.
    destruct (skip_keyless o rm (un ++ [p])) as [[q rm1] un1] eqn:S.
    destruct (skip_keyless_comm _ _ _ _ _ S) as (A & B & C & D).
    rewrite keyed_app, (keyed_one p Hp) in A. rewrite A.
    rewrite keyless_app, (keyless_one p Hp), app_nil_r in C.
    destruct q as [q|].
    - destruct (cmp_lex (vals_of o q) rv).
      + injection H as <- <- <- <-. repeat split; auto.
      + assert (L1 : (List.length rm1 < List.length rm)%nat) by (apply D; discriminate).
        assert (L2 : (List.length (keyed rm1) < List.length (keyed rm))%nat).
        { destruct (skip_keyless_comm _ _ _ _ _ A) as (_ & _ & _ & D'). apply D'. discriminate. }
        destruct (IH fuel' q rm1 un1 p' rm' un' eof ltac:(lia) ltac:(lia) B H) as (E & F & G).
        repeat split; auto. congruence.
      + injection H as <- <- <- <-. repeat split; auto.
    - injection H as <- <- <- <-. repeat split; auto.
  Qed.

  (* ---- the keeper with its key-less records erased *)
  Definition proj (k : keeper) : keeper :=
    mkKeeper (peek k) (bvals k) (brecs k) (bpaired k) (keyed (lun k)) (keyed (rem k)) (leof k) (kstate k).
  (* bucket and peek record always have the join keys *)
  Definition KInv (k : keeper) : Prop := Forall (fun q => hk q = true) (brecs k) /\ okp (peek k).
  (* the key-less records the keeper holds, in file order *)
  Definition KL (k : keeper) : list record := keyless (lun k) ++ keyless (rem k).

  Definition Comm (k k1 : keeper) (f : keeper -> keeper) : Prop :=
    f (proj k) = proj k1 /\ KInv k1 /\ KL k1 = KL k.

  Lemma prepare_first_comm k : KInv k -> Comm k (prepare_first o k) (prepare_first o).
  Proof.
    intros [Hb Hp]. unfold Comm, prepare_first. cbn [rem lun proj].
    destruct (skip_keyless o (rem k) (lun k)) as [[p rm] un] eqn:S.
    destruct (skip_keyless_comm _ _ _ _ _ S) as (A & B & C & _). rewrite A.
    split; [destruct p; reflexivity|]. split; [split; assumption|exact C].
  Qed.

  Lemma fill_next_comm k : KInv k -> Comm k (fill_next o k) (fill_next o).
  Proof.
    intros [Hb Hp]. unfold Comm, fill_next. cbn [peek rem lun brecs proj].
    destruct (peek k) as [p|] eqn:Ep; [|split; [unfold proj; now rewrite Ep|split; [split; [exact Hb|now rewrite Ep]|reflexivity]]].
    destruct (fill_loop o (vals_of o p) (rem k) (brecs k ++ [p]) (lun k)) as [[[[pk rm] recs] un] eof] eqn:F.
    destruct (fill_loop_comm _ _ _ _ _ _ _ _ _ F) as (A & B & C & D). rewrite A.
    split; [destruct eof; reflexivity|]. split; [|exact D].
    split; [cbn; apply C; apply Forall_app; split; [exact Hb|constructor; [exact Hp|constructor]]|exact B].
  Qed.

  Lemma maybe_fill_comm k : KInv k -> Comm k (maybe_fill o k) (maybe_fill o).
  Proof.
    intros HK. unfold maybe_fill at 1 2. change (peek (proj k)) with (peek k). destruct (peek k) eqn:E.
    - unfold Comm. unfold maybe_fill. change (peek (proj k)) with (peek k). rewrite E. apply fill_next_comm; exact HK.
    - unfold Comm, maybe_fill. change (peek (proj k)) with (peek k). rewrite E. repeat split; apply HK.
  Qed.

  Lemma prepare_new_comm rv k : KInv k -> Comm k (prepare_new o rv k) (prepare_new o rv).
  Proof.
    intros [Hb Hp]. unfold Comm, prepare_new. cbn [peek rem lun brecs bpaired leof kstate proj].
    set (un := if bpaired k then lun k else lun k ++ brecs k).
    assert (Eun : (if bpaired k then keyed (lun k) else keyed (lun k) ++ brecs k) = keyed un).
    { unfold un. destruct (bpaired k); [reflexivity|]. now rewrite keyed_app, (keyed_id _ Hb). }
    assert (Kun : keyless un = keyless (lun k)).
    { unfold un. destruct (bpaired k); [reflexivity|]. now rewrite keyless_app, (keyless_nil _ Hb), app_nil_r. }
    rewrite Eun.
    destruct (peek k) as [p|] eqn:Ep.
    - cbn in Hp. destruct (cmp_lex (vals_of o p) rv).
      + split; [reflexivity|]. split; [split; [constructor|exact Hp]|]. unfold KL. cbn [lun rem]. now rewrite Kun.
      + destruct (advance (S (List.length (rem k))) o rv p (rem k) un) as [[[p' rm'] un'] eof] eqn:A.
        destruct (advance_comm rv _ (S (List.length (keyed (rem k)))) _ _ _ _ _ _ _ (PeanoNat.Nat.lt_succ_diag_r _) (PeanoNat.Nat.lt_succ_diag_r _) Hp A)
          as (B & C & D).
        rewrite B. split; [destruct eof; reflexivity|]. split; [split; [constructor|exact C]|]. unfold KL. cbn [lun rem]. now rewrite D, Kun.
      + split; [reflexivity|]. split; [split; [constructor|exact Hp]|]. unfold KL. cbn [lun rem]. now rewrite Kun.
    - split; [reflexivity|]. split; [split; [constructor|exact I]|]. unfold KL. cbn [lun rem]. now rewrite Kun.
  Qed.

  Lemma mark_remaining_comm k : KInv k -> Comm k (mark_remaining k) mark_remaining.
  Proof.
    intros [Hb Hp]. unfold Comm, mark_remaining. cbn [peek rem lun brecs bpaired leof kstate bvals proj].
    set (un := if bpaired k then lun k else lun k ++ brecs k).
    assert (Eun : (if bpaired k then keyed (lun k) else keyed (lun k) ++ brecs k) = keyed un).
    { unfold un. destruct (bpaired k); [reflexivity|]. now rewrite keyed_app, (keyed_id _ Hb). }
    assert (Kun : keyless un = keyless (lun k)).
    { unfold un. destruct (bpaired k); [reflexivity|]. now rewrite keyless_app, (keyless_nil _ Hb), app_nil_r. }
    rewrite Eun. split; [|split; [split; [constructor|exact I]|]].
    - unfold proj. cbn [peek rem lun brecs bpaired leof kstate bvals]. destruct (peek k) as [p|]; cbn in Hp.
      + now rewrite !keyed_app, (keyed_one p Hp).
      + now rewrite keyed_app.
    - unfold KL. cbn [lun rem]. destruct (peek k) as [p|]; cbn in Hp.
      + rewrite !keyless_app, (keyless_one p Hp), Kun. cbn. now rewrite !app_nil_r.
      + rewrite keyless_app, Kun. cbn. now rewrite !app_nil_r.
  Qed.

  Lemma set_state_proj k : set_state (proj k) = proj (set_state k). Proof. reflexivity. Qed.
  Lemma set_paired_proj k : set_paired (proj k) = proj (set_paired k). Proof. reflexivity. Qed.
  Lemma clear_lun_proj k : clear_lun (proj k) = proj (clear_lun k). Proof. reflexivity. Qed.

  Lemma Comm_trans k k1 k2 f g : Comm k k1 f -> Comm k1 k2 g -> Comm k k2 (fun x => g (f x)).
  Proof. intros (A & B & C) (D & E & F). split; [now rewrite A, D|]. split; [exact E|congruence]. Qed.

  Lemma fjb_comm rv k : KInv k ->
    find_join_bucket o rv (proj k) = (fst (find_join_bucket o rv k), proj (snd (find_join_bucket o rv k)))
    /\ KInv (snd (find_join_bucket o rv k)) /\ KL (snd (find_join_bucket o rv k)) = KL k.
  Proof.
    intros HK. unfold find_join_bucket. change (kstate (proj k)) with (kstate k).
    set (k1 := if Nat.eqb (kstate k) 0 then set_state (maybe_fill o (prepare_first o k)) else k).
    assert (H1 : (if Nat.eqb (kstate k) 0 then set_state (maybe_fill o (prepare_first o (proj k))) else proj k) = proj k1
                 /\ KInv k1 /\ KL k1 = KL k).
    { unfold k1. destruct (Nat.eqb (kstate k) 0); [|repeat split; apply HK].
      destruct (prepare_first_comm k HK) as (A & B & C). destruct (maybe_fill_comm _ B) as (D & E & F).
      rewrite A, D, set_state_proj. split; [reflexivity|]. split; [exact E|]. change (KL (set_state (maybe_fill o (prepare_first o k)))) with (KL (maybe_fill o (prepare_first o k))). congruence. }
    destruct H1 as (E1 & K1 & L1). rewrite E1. clearbody k1. clear E1.
    destruct rv as [rv|].
    - change (kstate (proj k1)) with (kstate k1). change (bvals (proj k1)) with (bvals k1).
      destruct (Nat.eqb (kstate k1) 1 || Nat.eqb (kstate k1) 2).
      + destruct (cmp_lex (match bvals k1 with Some b => b | None => [] end) rv).
        * cbn [fst snd]. rewrite set_paired_proj, set_state_proj. repeat split; [apply K1|apply K1|exact L1].
        * destruct (prepare_new_comm rv k1 K1) as (A & B & C). destruct (maybe_fill_comm _ B) as (D & E & F).
          rewrite A, D. set (k2 := maybe_fill o (prepare_new o rv k1)) in *.
          change (brecs (proj k2)) with (brecs k2). change (bvals (proj k2)) with (bvals k2).
          assert (L2 : KL k2 = KL k) by congruence.
          destruct (brecs k2) eqn:Eb.
          -- cbn [fst snd]. rewrite set_state_proj. repeat split; [apply E|apply E|exact L2].
          -- destruct (cmp_lex (match bvals k2 with Some b => b | None => [] end) rv); cbn [fst snd];
               rewrite ?set_paired_proj, set_state_proj; (repeat split; [apply E|apply E|exact L2]).
        * cbn [fst snd]. rewrite set_state_proj. repeat split; [apply K1|apply K1|exact L1].
      + cbn [fst snd]. rewrite set_state_proj. repeat split; [apply K1|apply K1|exact L1].
    - destruct (mark_remaining_comm k1 K1) as (A & B & C). cbn [fst snd]. rewrite A, set_state_proj.
      split; [reflexivity|]. split; [exact B|]. change (KL (set_state (mark_remaining k1))) with (KL (mark_remaining k1)). congruence.
  Qed.

  (* ---- the whole output: run + final flush *)
  Fixpoint sorted_total (k : keeper) (right : list record) : list record :=
    match right with
    | [] => if ul o then map (unpaired_left o) (lun (snd (find_join_bucket o None k))) else []
    | r :: t => fst (sorted_step o k r) ++ sorted_total (snd (sorted_step o k r)) t
    end.

  Lemma sorted_total_run k right :
    sorted_total k right
    = fst (sorted_run o k right)
      ++ (if ul o then map (unpaired_left o) (lun (snd (find_join_bucket o None (snd (sorted_run o k right))))) else []).
  Proof.
    revert k. induction right as [|r t IH]; intros k; cbn [sorted_total sorted_run]; [reflexivity|].
    destruct (sorted_step o k r) as [e k'] eqn:S. cbn [fst snd]. rewrite IH.
    destruct (sorted_run o k' t) as [es k''] eqn:R. cbn [fst snd]. now rewrite app_assoc.
  Qed.

  Definition ulmap (l : list record) : list record := if ul o then map (unpaired_left o) l else [].
  Lemma ulmap_app a b : ulmap (a ++ b) = ulmap a ++ ulmap b.
  Proof. unfold ulmap. destruct (ul o); [apply map_app|reflexivity]. Qed.
  Lemma ulmap_perm a b : Permutation a b -> Permutation (ulmap a) (ulmap b).
  Proof. intros H. unfold ulmap. destruct (ul o); [now apply Permutation_map|constructor]. Qed.

  Lemma step_comm k r : KInv k ->
    exists rest k1,
      sorted_step o k r = (ulmap (lun k1) ++ rest, clear_lun k1)
      /\ sorted_step o (proj k) r = (ulmap (keyed (lun k1)) ++ rest, proj (clear_lun k1))
      /\ KInv (clear_lun k1) /\ KL k1 = KL k.
  Proof.
    intros HK. unfold sorted_step, ulmap.
    destruct (key_of (ie o) (rj o) r) as [vs|].
    - destruct (fjb_comm (Some vs) k HK) as (A & B & C). rewrite A.
      destruct (find_join_bucket o (Some vs) k) as [b k1]. cbn [fst snd] in *.
      eexists _, k1. split; [reflexivity|]. split; [reflexivity|]. split; [exact B|exact C].
    - eexists _, k. split; [reflexivity|]. split; [reflexivity|]. split; [exact HK|reflexivity].
  Qed.

  Theorem sorted_total_keyless right : forall k, KInv k ->
    Permutation (sorted_total k right) (sorted_total (proj k) right ++ ulmap (KL k)).
  Proof.
    induction right as [|r t IH]; intros k HK; cbn [sorted_total].
    - destruct (fjb_comm None k HK) as (A & B & C). rewrite A. cbn [snd].
      set (k1 := snd (find_join_bucket o None k)) in *. change (lun (proj k1)) with (keyed (lun k1)).
      fold (ulmap (lun k1)). fold (ulmap (keyed (lun k1))). rewrite <- ulmap_app. apply ulmap_perm.
      rewrite <- C. unfold KL.
      assert (Hr : keyless (rem k1) = []).
      { unfold k1, find_join_bucket. cbn [snd]. reflexivity. }
      rewrite Hr, app_nil_r. apply keyed_keyless_perm.
    - destruct (step_comm k r HK) as (rest & k1 & A & B & C & D). rewrite A, B. cbn [fst snd].
      specialize (IH (clear_lun k1) C).
      assert (HL : KL k = keyless (lun k1) ++ KL (clear_lun k1)) by (rewrite <- D; reflexivity).
      rewrite HL, ulmap_app.
      eapply Permutation_trans; [apply Permutation_app_head; exact IH|].
      set (T := sorted_total (proj (clear_lun k1)) t). set (Z := ulmap (KL (clear_lun k1))).
      rewrite <- !app_assoc.
      apply Permutation_trans with ((ulmap (keyed (lun k1)) ++ ulmap (keyless (lun k1))) ++ rest ++ T ++ Z).
      + apply Permutation_app_tail. rewrite <- ulmap_app. apply ulmap_perm. apply keyed_keyless_perm.
      + rewrite <- !app_assoc. apply Permutation_app_head.
        rewrite !app_assoc. apply Permutation_app_tail. rewrite <- !app_assoc.
        apply Permutation_trans with ((rest ++ T) ++ ulmap (keyless (lun k1))); [apply Permutation_app_comm|now rewrite app_assoc].
  Qed.
End Keyless.

(* ------------------------------------------------------------------ the default mode and key-less left records *)
Definition keyed_left (o : opts) (left : list record) : list record := filter (fun l => has_keys o (keep_left o l)) left.

Lemma lefts_keyed_left o left : lefts o (keyed_left o left) = keyed o (lefts o left).
Proof.
  unfold lefts, keyed_left, keyed. induction left as [|l left IH]; cbn; [reflexivity|].
  destruct (has_keys o (keep_left o l)); cbn; now rewrite IH.
Qed.

Lemma ingest_keyless o left : forall bs un,
  ingest o left bs un = (fst (ingest o (keyed_left o left) bs []), un ++ keyless o (lefts o left))
  /\ snd (ingest o (keyed_left o left) bs []) = [].
Proof.
  induction left as [|l left IH]; intros bs un; cbn [ingest keyed_left filter lefts map keyless].
  - cbn. now rewrite app_nil_r.
  - unfold has_keys. destruct (key_of (ie o) (lj o) (keep_left o l)) as [vs|] eqn:K; cbn [negb].
    + cbn [ingest]. rewrite K. apply IH.
    + destruct (IH bs (un ++ [keep_left o l])) as [A B]. rewrite A. split; [|exact B]. now rewrite <- app_assoc.
Qed.

Lemma join_unsorted_keyless o left right :
  join_unsorted o left right
  = join_unsorted o (keyed_left o left) right ++ ulmap o (keyless o (lefts o left)).
Proof.
  unfold join_unsorted. destruct (ingest_keyless o left [] []) as [A B]. rewrite A.
  destruct (ingest o (keyed_left o left) [] []) as [bs un] eqn:E. cbn [fst snd] in *. subst un.
  destruct (run_right o bs right) as [out bs']. unfold ulmap, left_unpaired_out. cbn [app].
  destruct (ul o); [|now rewrite !app_nil_r].
  rewrite app_nil_r, <- app_assoc. f_equal. now rewrite map_app.
Qed.

Lemma join_sorted_total o left right : join_sorted o left right = sorted_total o (keeper0 o left) right.
Proof.
  rewrite sorted_total_run. unfold join_sorted. fold (keeper0 o left).
  destruct (sorted_run o (keeper0 o left) right) as [out k]. cbn [fst snd].
  destruct (find_join_bucket o None k) as [b k']. reflexivity.
Qed.

Lemma join_sorted_keyless o left right :
  Permutation (join_sorted o left right) (join_sorted o (keyed_left o left) right ++ ulmap o (keyless o (lefts o left))).
Proof.
  rewrite !join_sorted_total.
  assert (HK : KInv o (keeper0 o left)) by (split; [constructor|exact I]).
  eapply Permutation_trans; [apply (sorted_total_keyless o right _ HK)|].
  assert (E : proj o (keeper0 o left) = keeper0 o (keyed_left o left)).
  { unfold proj, keeper0. cbn. f_equal. symmetry. apply lefts_keyed_left. }
  rewrite E. unfold KL, keeper0. cbn [lun rem]. cbn [keyless filter app]. apply Permutation_refl.
Qed.

(* sorted = unsorted on every left file whose KEYED records are sorted, key-less records anywhere *)
Theorem join_sorted_perm_unsorted_full o left right :
  List.length (lj o) = List.length (rj o) ->
  left_sorted o (keyed o (lefts o left)) ->
  ROK o (keyed o (lefts o left)) right ->
  Permutation (join_sorted o left right) (join_unsorted o left right).
Proof.
  intros Hn Hs HR. rewrite join_unsorted_keyless.
  eapply Permutation_trans; [apply join_sorted_keyless|]. apply Permutation_app_tail.
  rewrite <- lefts_keyed_left in Hs, HR.
  apply join_sorted_perm_unsorted; auto.
  intros l Hl. rewrite lefts_keyed_left in Hl. apply filter_In in Hl. tauto.
Qed.

Corollary join_sorted_perm_unsorted_full_single o left right :
  List.length (lj o) = 1%nat -> List.length (rj o) = 1%nat ->
  left_sorted o (keyed o (lefts o left)) ->
  StronglySorted (rle o) right ->
  Permutation (join_sorted o left right) (join_unsorted o left right).
Proof.
  intros H1 H2 Hs HR. apply join_sorted_perm_unsorted_full; auto; [congruence|].
  split; [exact HR|]. apply inj_on_single; auto.
  intros l Hl. apply filter_In in Hl. tauto.
Qed.

(* without the key-identification condition the two modes differ (the default mode buckets by the comma-joined text) *)
Lemma sorted_vs_unsorted_comma_witness :
  exists o left right,
    List.length (lj o) = List.length (rj o) /\ left_sorted o (keyed o (lefts o left)) /\ StronglySorted (rle o) right
    /\ ~ Permutation (join_sorted o left right) (join_unsorted o left right).
Proof.
  exists (mkOpts [B "j"; B "j2"] [B "j"; B "j2"] [B "j"; B "j2"] [] [] None false true true false),
         [[(B "j", B "x,y"); (B "j2", B "z"); (B "l", B "1")]], [[(B "j", B "x"); (B "j2", B "y,z"); (B "r", B "2")]].
  split; [reflexivity|]. split; [vm_compute; repeat constructor|]. split; [repeat constructor|].
  intros H. apply Permutation_length in H. vm_compute in H. discriminate.
Qed.

Lemma keyless_both_modes o left right :
  Permutation (join_sorted o left right) (join_sorted o (keyed_left o left) right ++ ulmap o (keyless o (lefts o left)))
  /\ join_unsorted o left right = join_unsorted o (keyed_left o left) right ++ ulmap o (keyless o (lefts o left)).
Proof. split; [apply join_sorted_keyless|apply join_unsorted_keyless]. Qed.
