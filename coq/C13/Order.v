(* C13: order facts about strings.Compare on bytes (bcmp) and the field-by-field comparison (cmp_lex). *)
From Miller Require Import Base.Bytes Base.Record C13.Model.

Lemma code_inj a b : code a = code b -> a = b.
Proof. unfold code. intros H. rewrite <- (ascii_N_embedding a), <- (ascii_N_embedding b). now rewrite H. Qed.

Lemma bcmp_refl a : bcmp a a = Eq.
Proof. induction a as [|x a IH]; cbn; [reflexivity|]. now rewrite N.compare_refl. Qed.

Lemma bcmp_eq a : forall b, bcmp a b = Eq -> a = b.
Proof.
  induction a as [|x a IH]; intros [|y b]; cbn; try discriminate; [reflexivity|].
  destruct (code x ?= code y)%N eqn:E; try discriminate. intros H. apply N.compare_eq in E. apply code_inj in E. subst. f_equal. auto.
Qed.

Lemma bcmp_antisym a : forall b, bcmp b a = CompOpp (bcmp a b).
Proof.
  induction a as [|x a IH]; intros [|y b]; cbn; try reflexivity.
  rewrite (N.compare_antisym (code x) (code y)). destruct (code x ?= code y)%N; cbn; auto.
Qed.

Lemma bcmp_trans a : forall b c, bcmp a b = Lt -> bcmp b c = Lt -> bcmp a c = Lt.
Proof.
  induction a as [|x a IH]; intros [|y b] [|z c]; cbn; try discriminate; try reflexivity.
  destruct (code x ?= code y)%N eqn:E1; try discriminate; destruct (code y ?= code z)%N eqn:E2; try discriminate; intros H1 H2.
  - apply N.compare_eq in E1, E2. rewrite E1, E2, N.compare_refl. eauto.
  - apply N.compare_eq in E1. now rewrite E1, E2.
  - apply N.compare_eq in E2. now rewrite <- E2, E1.
  - rewrite N.compare_lt_iff in *. assert (code x < code z)%N by lia. now rewrite (proj2 (N.compare_lt_iff _ _) H).
Qed.

(* cmp_lex on key lists of one common length *)
Lemma cmp_lex_refl a : cmp_lex a a = Eq.
Proof. induction a as [|x a IH]; cbn; [reflexivity|]. now rewrite bcmp_refl. Qed.

Lemma cmp_lex_eq a : forall b, List.length a = List.length b -> cmp_lex a b = Eq -> a = b.
Proof.
  induction a as [|x a IH]; intros [|y b]; cbn; try discriminate; [reflexivity|].
  intros L. destruct (bcmp x y) eqn:E; try discriminate. intros H. apply bcmp_eq in E. subst. f_equal. apply IH; [lia|auto].
Qed.

Lemma cmp_lex_antisym a : forall b, cmp_lex b a = CompOpp (cmp_lex a b).
Proof.
  induction a as [|x a IH]; intros [|y b]; cbn; try reflexivity.
  rewrite (bcmp_antisym x y). destruct (bcmp x y); cbn; auto.
Qed.

Lemma cmp_lex_trans a : forall b c, List.length a = List.length b -> List.length b = List.length c ->
  cmp_lex a b = Lt -> cmp_lex b c = Lt -> cmp_lex a c = Lt.
Proof.
  induction a as [|x a IH]; intros [|y b] [|z c]; cbn; try discriminate.
  intros L1 L2. destruct (bcmp x y) eqn:E1; try discriminate; destruct (bcmp y z) eqn:E2; try discriminate; intros H1 H2.
  - apply bcmp_eq in E1, E2. subst. rewrite bcmp_refl. apply (IH b c); auto; lia.
  - apply bcmp_eq in E1. subst. now rewrite E2.
  - apply bcmp_eq in E2. subst. now rewrite E1.
  - now rewrite (bcmp_trans _ _ _ E1 E2).
Qed.

(* a <= b as "not Gt" *)
Definition kle (a b : list bytes) : Prop := cmp_lex a b <> Gt.

Lemma cmp_lex_lt_le a b c : List.length a = List.length b -> List.length b = List.length c ->
  cmp_lex a b = Lt -> kle b c -> cmp_lex a c = Lt.
Proof.
  intros L1 L2 H1 H2. unfold kle in H2. destruct (cmp_lex b c) eqn:E; [|eapply cmp_lex_trans; eauto|congruence].
  apply cmp_lex_eq in E; auto. now subst.
Qed.

Lemma cmp_lex_le_lt a b c : List.length a = List.length b -> List.length b = List.length c ->
  kle a b -> cmp_lex b c = Lt -> cmp_lex a c = Lt.
Proof.
  intros L1 L2 H1 H2. unfold kle in H1. destruct (cmp_lex a b) eqn:E; [|eapply cmp_lex_trans; eauto|congruence].
  apply cmp_lex_eq in E; auto. now subst.
Qed.

Lemma cmp_lex_gt_lt a b : cmp_lex a b = Gt <-> cmp_lex b a = Lt.
Proof. rewrite (cmp_lex_antisym a b). destruct (cmp_lex a b); cbn; split; congruence. Qed.

Lemma selected_length names r : forall vs, selected names r = Some vs -> List.length vs = List.length names.
Proof.
  induction names as [|n names IH]; cbn; intros vs H; [injection H as <-; reflexivity|].
  destruct (get n r); [|discriminate]. destruct (selected names r) as [vs'|]; [|discriminate].
  injection H as <-. cbn. f_equal. auto.
Qed.
