(* C13, sorted-input mode (-s) on ALL inputs, sorted or not: every left record is accounted for exactly once.
   The left file is partitioned (as a multiset) into the records flushed as unpaired -- each flushed once -- and the
   buckets Bs that were paired; every bucket of Bs is non-empty and was paired, as a whole, with at least one right
   record; every right record is either unpaired or paired with one whole bucket of Bs.  No sortedness, no key
   completeness assumed: on unsorted input -s pairs fewer records than the default mode (documented), but it never
   loses a record, never emits one twice as unpaired, and never emits a record both as paired and as unpaired. *)
From Miller Require Import Base.Bytes Base.Record C13.Model C13.Proofs C13.ProofsSorted.
From Coq Require Import Permutation Lia.

(* bucket invariant: no bucket values <-> empty, never-paired bucket *)
Definition BInv (k : keeper) : Prop :=
  (bvals k = None -> bpaired k = false /\ brecs k = []) /\ (bvals k <> None -> brecs k <> []).

Lemma fill_loop_recs o bv rm : forall recs un pk rm' recs' un' eof,
  fill_loop o bv rm recs un = (pk, rm', recs', un', eof) -> recs <> [] -> recs' <> [].
Proof.
  induction rm as [|q rm IH]; intros recs un pk rm' recs' un' eof H Hne; cbn [fill_loop] in H.
  - injection H as <- <- <- <- <-. exact Hne.
  - destruct (has_keys o q).
    + destruct (cmp_lex bv (vals_of o q)).
      * eapply IH; [exact H|]. destruct recs; discriminate.
      * injection H as <- <- <- <- <-. exact Hne.
      * injection H as <- <- <- <- <-. exact Hne.
    + eapply IH; eauto.
Qed.

Lemma fill_next_bucket o k p : peek k = Some p ->
  bvals (fill_next o k) <> None /\ brecs (fill_next o k) <> [] /\ bpaired (fill_next o k) = false.
Proof.
  intros Hp. unfold fill_next. rewrite Hp.
  destruct (fill_loop o (vals_of o p) (rem k) (brecs k ++ [p]) (lun k)) as [[[[pk rm] recs] un] eof] eqn:F.
  cbn. split; [discriminate|]. split; [|reflexivity]. eapply fill_loop_recs; [exact F|]. destruct (brecs k); discriminate.
Qed.

Lemma maybe_fill_BInv o k : BInv k -> bpaired k = false -> BInv (maybe_fill o k) /\ bpaired (maybe_fill o k) = false.
Proof.
  intros HB Hp. unfold maybe_fill. destruct (peek k) as [p|] eqn:E; [|split; assumption].
  destruct (fill_next_bucket o k p E) as (A & B & C). split; [|exact C]. split; [intros H; contradiction|intros _; exact B].
Qed.

Lemma prepare_first_bucket o k :
  bvals (prepare_first o k) = bvals k /\ brecs (prepare_first o k) = brecs k /\ bpaired (prepare_first o k) = bpaired k.
Proof. unfold prepare_first. destruct (skip_keyless o (rem k) (lun k)) as [[p rm] un]. cbn. auto. Qed.

Lemma prepare_new_bucket o rv k :
  bvals (prepare_new o rv k) = None /\ brecs (prepare_new o rv k) = [] /\ bpaired (prepare_new o rv k) = false.
Proof.
  unfold prepare_new. destruct (peek k) as [p|]; [|cbn; auto].
  destruct (cmp_lex (vals_of o p) rv); [cbn; auto| |cbn; auto].
  destruct (advance _ o rv p (rem k) _) as [[[p' rm'] un'] eof]. cbn. auto.
Qed.

Lemma state12_bvals k : Inv k -> (Nat.eqb (kstate k) 1 || Nat.eqb (kstate k) 2) = true -> bvals k <> None.
Proof.
  intros [H1 _] H. rewrite H1 in H. unfold compute_state in H. destruct (bvals k); [discriminate|]. destruct (leof k); discriminate.
Qed.

Lemma state0_bvals k : Inv k -> Nat.eqb (kstate k) 0 = true -> bvals k = None.
Proof.
  intros [H1 _] H. rewrite H1 in H. unfold compute_state in H. destruct (bvals k); [destruct (peek k); discriminate|reflexivity].
Qed.

(* what one call of FindJoinBucket does to the bucket, and which records it drops (D) *)
Definition Acc (rv : option (list bytes)) (k : keeper) (b : bool) (k' : keeper) (D : list record) : Prop :=
  Permutation (pool k) (pool k' ++ D)
  /\ Inv k'
  /\ (b = true -> bpaired k' = true /\ brecs k' <> [])
  /\ (bpaired k = true -> brecs k <> [] -> (D = [] /\ bpaired k' = true /\ brecs k' = brecs k) \/ D = brecs k)
  /\ (D = [] \/ (bpaired k = true /\ D = brecs k))
  /\ match rv with
     | Some _ => BInv k' /\ (bpaired k' = true -> b = true \/ (D = [] /\ bpaired k = true /\ brecs k' = brecs k))
     | None => pool k' = lun k'
     end.

Lemma fjb_account o rv k : Inv k -> BInv k ->
  exists D, Acc rv k (fst (find_join_bucket o rv k)) (snd (find_join_bucket o rv k)) D.
Proof.
  intros HI HB. unfold find_join_bucket.
  set (k1 := if Nat.eqb (kstate k) 0 then set_state (maybe_fill o (prepare_first o k)) else k).
  assert (H1 : Inv k1 /\ BInv k1 /\ Permutation (pool k1) (pool k) /\ bpaired k1 = bpaired k /\ (bpaired k = true -> brecs k1 = brecs k)).
  { unfold k1. destruct (Nat.eqb (kstate k) 0) eqn:E; [|split; [exact HI|split; [exact HB|split; [apply Permutation_refl|split; [reflexivity|intros _; reflexivity]]]]].
    pose proof (state0_bvals k HI E) as Hbv. destruct (proj1 HB Hbv) as [Hbp Hbr].
    destruct (prepare_first_bucket o k) as (A1 & A2 & A3).
    assert (HB' : BInv (prepare_first o k)) by (unfold BInv; rewrite A1, A2, A3; exact HB).
    destruct (maybe_fill_BInv o (prepare_first o k) HB' ltac:(congruence)) as [B1 B2].
    split; [apply set_state_Inv, maybe_fill_inv2|]. split; [exact B1|].
    split; [eapply Permutation_trans; [apply (maybe_fill_perm o (prepare_first o k))|]; apply prepare_first_perm; apply Inv_state0; auto|].
    split; [cbn; congruence|]. intros Hc. congruence. }
  destruct H1 as (HI1 & HB1 & HP1 & Hbp1 & Hbr1). clearbody k1.
  assert (Hpart : paired_part k1 = [] \/ (bpaired k = true /\ paired_part k1 = brecs k)).
  { unfold paired_part. rewrite Hbp1. destruct (bpaired k) eqn:E; [right; split; [reflexivity|apply Hbr1; reflexivity]|left; reflexivity]. }
  (* the two recurring outcomes *)
  assert (Keep : forall b k2, Inv2 k2 -> pool k2 = pool k1 -> brecs k2 = brecs k1 -> bvals k2 = bvals k1 ->
                              (bpaired k2 = true -> b = true \/ bpaired k1 = true) -> (bpaired k1 = true -> bpaired k2 = true) ->
                              (b = true -> bpaired k2 = true /\ brecs k1 <> []) ->
                              rv <> None -> Acc rv k b (set_state k2) []).
  { intros b k2 A1 A2 A3 A4 A5 A6 A7 A8. unfold Acc. rewrite app_nil_r.
    split; [change (pool (set_state k2)) with (pool k2); rewrite A2; apply Permutation_sym; exact HP1|].
    split; [apply set_state_Inv; exact A1|].
    split; [intros Hb; cbn; rewrite A3; apply A7; exact Hb|].
    split; [intros Hp Hne; left; split; [reflexivity|]; cbn; split; [apply A6; congruence|rewrite A3; apply Hbr1; exact Hp]|].
    split; [left; reflexivity|].
    destruct rv as [rv'|]; [|congruence].
    split; [unfold BInv; cbn; rewrite A3, A4|].
    - split; [intros Hn; destruct (proj1 HB1 Hn) as [X Y]; split; [|exact Y]|exact (proj2 HB1)].
      destruct (bpaired k2) eqn:E; [|reflexivity]. destruct (A5 eq_refl) as [Hb|Hb]; [|congruence].
      destruct (A7 Hb) as [_ Hne]. contradiction.
    - cbn. intros Hp. destruct (A5 Hp) as [Hb|Hb]; [left; exact Hb|right].
      split; [reflexivity|]. split; [congruence|]. rewrite A3. apply Hbr1. congruence. }
  assert (Rel : forall b k2, Inv2 k2 -> Permutation (pool k1) (pool k2 ++ paired_part k1) -> BInv k2 ->
                             (b = true -> bpaired k2 = true /\ brecs k2 <> []) -> (bpaired k2 = true -> b = true) ->
                             rv <> None -> Acc rv k b (set_state k2) (paired_part k1)).
  { intros b k2 A1 A2 A3 A4 A5 A6. unfold Acc.
    split; [change (pool (set_state k2)) with (pool k2); eapply Permutation_trans; [apply Permutation_sym; exact HP1|exact A2]|].
    split; [apply set_state_Inv; exact A1|].
    split; [exact A4|].
    split; [intros Hp Hne; right; destruct Hpart as [E|[_ E]]; [|exact E]; unfold paired_part in E; rewrite Hbp1, Hp in E; rewrite (Hbr1 Hp) in E; contradiction|].
    split; [exact Hpart|].
    destruct rv as [rv'|]; [|congruence]. split; [exact A3|]. cbn. intros Hp. left. apply A5. exact Hp. }
  destruct rv as [rv|].
  - destruct (Nat.eqb (kstate k1) 1 || Nat.eqb (kstate k1) 2) eqn:S12.
    + pose proof (proj2 HB1 (state12_bvals k1 HI1 S12)) as Hne1.
      destruct (cmp_lex (match bvals k1 with Some b => b | None => [] end) rv).
      * exists []. cbn [fst snd]. apply (Keep true (set_paired k1)); try reflexivity; try discriminate; auto.
        -- apply set_paired_inv2. exact (proj2 HI1).
      * set (k2 := maybe_fill o (prepare_new o rv k1)).
        assert (HP2 : Permutation (pool k1) (pool k2 ++ paired_part k1)).
        { eapply Permutation_trans; [apply (prepare_new_perm o rv k1)|]. apply Permutation_app_tail. apply Permutation_sym. apply maybe_fill_perm. }
        destruct (prepare_new_bucket o rv k1) as (N1 & N2 & N3).
        assert (HBn : BInv (prepare_new o rv k1)) by (split; [intros _; split; assumption|intros H; contradiction]).
        destruct (maybe_fill_BInv o _ HBn N3) as [HB2 Hp2]. fold k2 in HB2, Hp2.
        exists (paired_part k1).
        destruct (brecs k2) eqn:Eb.
        -- cbn [fst snd]. apply (Rel false k2); auto; try discriminate; [apply maybe_fill_inv2|congruence].
        -- destruct (cmp_lex (match bvals k2 with Some b => b | None => [] end) rv); cbn [fst snd].
           ++ apply (Rel true (set_paired k2)).
              ** apply set_paired_inv2, maybe_fill_inv2.
              ** change (pool (set_paired k2)) with (pool k2). exact HP2.
              ** unfold BInv. cbn. split; [intros Hn; destruct (proj1 HB2 Hn) as [_ X]; congruence|exact (proj2 HB2)].
              ** intros _. cbn. rewrite Eb. split; [reflexivity|discriminate].
              ** intros _. reflexivity.
              ** discriminate.
           ++ apply (Rel false k2); auto; try discriminate; [apply maybe_fill_inv2|congruence].
           ++ apply (Rel false k2); auto; try discriminate; [apply maybe_fill_inv2|congruence].
      * exists []. cbn [fst snd]. apply (Keep false k1); try reflexivity; try discriminate; auto. exact (proj2 HI1).
    + exists []. cbn [fst snd]. apply (Keep false k1); try reflexivity; try discriminate; auto. exact (proj2 HI1).
  - exists (paired_part k1). cbn [fst snd]. unfold Acc.
    split; [change (pool (set_state (mark_remaining k1))) with (pool (mark_remaining k1));
            eapply Permutation_trans; [apply Permutation_sym; exact HP1|apply mark_remaining_perm]|].
    split; [apply set_state_Inv; intros _ _; reflexivity|].
    split; [discriminate|].
    split; [intros Hp Hne; right; destruct Hpart as [E|[_ E]]; [|exact E]; unfold paired_part in E; rewrite Hbp1, Hp in E; rewrite (Hbr1 Hp) in E; contradiction|].
    split; [exact Hpart|].
    unfold pool, mark_remaining. cbn. now rewrite app_nil_r.
Qed.

(* ------------------------------------------------------------------ the run *)
Definition step_paired (o : opts) (k : keeper) (r : record) : bool :=
  match key_of (ie o) (rj o) r with Some vs => fst (find_join_bucket o (Some vs) k) | None => false end.
(* per right record: (left records flushed as unpaired, the bucket it is paired with or [] ) *)
Fixpoint steps_of (o : opts) (k : keeper) (right : list record) : list (list record * list record) :=
  match right with
  | [] => []
  | r :: t => (lun (step_keeper o k r), if step_paired o k r then brecs (step_keeper o k r) else [])
              :: steps_of o (clear_lun (step_keeper o k r)) t
  end.
Definition final_of (o : opts) (k : keeper) (right : list record) : list record :=
  lun (snd (find_join_bucket o None (snd (sorted_run o k right)))).

Definition emit (o : opts) (s : list record * list record) (r : record) : list record :=
  map (unpaired_left o) (fst s)
  ++ match snd s with
     | [] => if ur o then [unpaired_right o r] else []
     | B => if np o then [] else map (fun l => compose o l r) B
     end.
Fixpoint emit_all (o : opts) (ss : list (list record * list record)) (right : list record) : list record :=
  match ss, right with
  | s :: ss', r :: t => emit o s r ++ emit_all o ss' t
  | _, _ => []
  end.

Lemma step_account o k r : Inv k -> BInv k ->
  exists D, Acc (Some []) k (step_paired o k r) (step_keeper o k r) D.
Proof.
  intros HI HB. unfold step_paired, step_keeper. destruct (key_of (ie o) (rj o) r) as [vs|].
  - destruct (fjb_account o (Some vs) k HI HB) as [D H]. exists D. exact H.
  - exists []. unfold Acc. rewrite app_nil_r. split; [apply Permutation_refl|]. split; [exact HI|]. split; [discriminate|].
    split; [intros Hp _; left; auto|]. split; [left; reflexivity|]. split; [exact HB|]. intros Hp. right. auto.
Qed.

Lemma sorted_step_emit o k r : Inv k -> BInv k -> ul o = true ->
  sorted_step o k r
  = (emit o (lun (step_keeper o k r), if step_paired o k r then brecs (step_keeper o k r) else []) r, clear_lun (step_keeper o k r)).
Proof.
  intros HI HB Hul. destruct (step_account o k r HI HB) as (D & _ & _ & P1 & _).
  rewrite sorted_step_shape, Hul. f_equal. unfold emit, step_rest. cbn [fst snd]. f_equal.
  fold (step_paired o k r). destruct (step_paired o k r) eqn:E; cbn [negb andb].
  - destruct (P1 eq_refl) as [_ Hne]. destruct (brecs (step_keeper o k r)); [contradiction|]. destruct (np o); reflexivity.
  - destruct (ur o); reflexivity.
Qed.

Lemma run_emit o right : forall k, Inv k -> BInv k -> ul o = true ->
  fst (sorted_run o k right) = emit_all o (steps_of o k right) right
  /\ List.length (steps_of o k right) = List.length right.
Proof.
  induction right as [|r t IH]; intros k HI HB Hul; cbn [sorted_run steps_of emit_all]; [split; reflexivity|].
  rewrite (sorted_step_emit o k r HI HB Hul).
  destruct (step_account o k r HI HB) as (D & _ & HI' & _ & _ & _ & HB' & _).
  destruct (IH (clear_lun (step_keeper o k r)) (clear_lun_Inv _ HI') HB' Hul) as [A B].
  destruct (sorted_run o (clear_lun (step_keeper o k r)) t) as [es k''] eqn:R. cbn [fst snd] in *.
  split; [now rewrite A|cbn; now rewrite B].
Qed.

Lemma final_of_cons o k r t : final_of o k (r :: t) = final_of o (snd (sorted_step o k r)) t.
Proof.
  unfold final_of. cbn [sorted_run]. destruct (sorted_step o k r) as [e k']. cbn [snd].
  destruct (sorted_run o k' t) as [es k'']. reflexivity.
Qed.

Definition open_bucket (k : keeper) (Bs : list (list record)) : Prop := bpaired k = true -> brecs k <> [] -> In (brecs k) Bs.

Theorem run_account o right : forall k, Inv k -> BInv k ->
  exists Bs : list (list record),
    Permutation (pool k) (List.concat (map fst (steps_of o k right)) ++ final_of o k right ++ List.concat Bs)
    /\ open_bucket k Bs
    /\ (forall B, In B Bs -> B <> [] /\ ((bpaired k = true /\ B = brecs k) \/ In B (map snd (steps_of o k right))))
    /\ (forall s, In s (steps_of o k right) -> snd s <> [] -> In (snd s) Bs).
Proof.
  induction right as [|r t IH]; intros k HI HB.
  - cbn [steps_of map List.concat app]. unfold final_of. cbn [sorted_run snd].
    destruct (fjb_account o None k HI HB) as (D & HP & _ & _ & P3 & P4 & Hpool).
    rewrite Hpool in HP.
    destruct D as [|d D].
    + exists []. cbn. rewrite app_nil_r in *. split; [exact HP|]. split; [|split; [intros B []|intros s []]].
      intros Hp Hne. destruct (P3 Hp Hne) as [(_ & _ & E)|E]; [|congruence].
      (* the final keeper has an empty bucket *)
      exfalso. apply Hne. rewrite <- E. reflexivity.
    + exists [d :: D]. cbn [List.concat]. rewrite app_nil_r. split; [exact HP|].
      destruct P4 as [E|[Hp E]]; [discriminate|].
      split; [intros _ _; left; exact E|]. split; [|intros s []].
      intros B [<-|[]]. split; [discriminate|]. left. split; assumption.
  - cbn [steps_of map List.concat fst snd]. rewrite final_of_cons, sorted_step_shape. cbn [snd].
    destruct (step_account o k r HI HB) as (D & HP & HI1 & P1 & P3 & P4 & HB1 & P2).
    set (k1 := step_keeper o k r) in *. set (b := step_paired o k r) in *.
    destruct (IH (clear_lun k1) (clear_lun_Inv _ HI1) HB1) as (Bs2 & Q1 & Q2 & Q3 & Q4).
    change (bpaired (clear_lun k1)) with (bpaired k1) in *. change (brecs (clear_lun k1)) with (brecs k1) in *.
    unfold open_bucket in Q2. change (bpaired (clear_lun k1)) with (bpaired k1) in Q2. change (brecs (clear_lun k1)) with (brecs k1) in Q2.
    set (S2 := steps_of o (clear_lun k1) t) in *. set (F2 := final_of o (clear_lun k1) t) in *.
    exists ((match D with [] => [] | _ => [D] end) ++ Bs2).
    split; [|split; [|split]].
    + eapply Permutation_trans; [exact HP|].
      eapply Permutation_trans; [apply Permutation_app_tail; apply clear_lun_pool|].
      rewrite <- !app_assoc. apply Permutation_app_head.
      eapply Permutation_trans; [apply Permutation_app_tail; exact Q1|].
      rewrite <- !app_assoc. apply Permutation_app_head. apply Permutation_app_head.
      rewrite concat_app. destruct D as [|d D']; cbn [List.concat app]; [now rewrite app_nil_r|].
      rewrite app_nil_r. apply Permutation_app_comm.
    + intros Hp Hne. destruct (P3 Hp Hne) as [(E1 & E2 & E3)|E].
      * apply in_or_app. right. rewrite <- E3. apply Q2; [exact E2|now rewrite E3].
      * apply in_or_app. left. rewrite E. destruct (brecs k); [contradiction|left; reflexivity].
    + intros B HB'. apply in_app_or in HB'. destruct HB' as [HB'|HB'].
      * destruct D as [|d D']; [contradiction|]. destruct HB' as [<-|[]]. split; [discriminate|].
        destruct P4 as [E|[Hp E]]; [discriminate|]. left. split; assumption.
      * destruct (Q3 B HB') as [Hne [[Hp E]|Hin]]; (split; [exact Hne|]).
        -- destruct (P2 Hp) as [Hb|(E1 & E2 & E3)].
           ++ right. left. rewrite Hb. symmetry. exact E.
           ++ left. split; [exact E2|congruence].
        -- right. right. exact Hin.
    + intros s [<-|Hs] Hne; cbn [snd] in *.
      * destruct b eqn:Eb; [|contradiction]. destruct (P1 eq_refl) as [Hp Hn]. apply in_or_app. right. apply Q2; assumption.
      * apply in_or_app. right. apply Q4; assumption.
Qed.

Lemma keeper0_BInv o left : BInv (keeper0 o left).
Proof. split; [intros _; split; reflexivity|intros H; contradiction]. Qed.

(* the exactly-once theorem for -s, ALL inputs *)
Theorem join_sorted_exactly_once o left right :
  ul o = true ->
  exists (steps : list (list record * list record)) (final : list record) (Bs : list (list record)),
    join_sorted o left right = emit_all o steps right ++ map (unpaired_left o) final
    /\ List.length steps = List.length right
    /\ Permutation (lefts o left) (List.concat (map fst steps) ++ final ++ List.concat Bs)
    /\ (forall B, In B Bs -> B <> [] /\ In B (map snd steps))
    /\ (forall s, In s steps -> snd s <> [] -> In (snd s) Bs).
Proof.
  intros Hul. set (k0 := keeper0 o left).
  destruct (run_emit o right k0 (keeper0_Inv o left) (keeper0_BInv o left) Hul) as [E1 E2].
  destruct (run_account o right k0 (keeper0_Inv o left) (keeper0_BInv o left)) as (Bs & Q1 & _ & Q3 & Q4).
  exists (steps_of o k0 right), (final_of o k0 right), Bs.
  split; [|split; [exact E2|split; [|split; [|exact Q4]]]].
  - unfold join_sorted. fold (keeper0 o left). fold k0. unfold final_of. rewrite <- E1.
    destruct (sorted_run o k0 right) as [out k]. cbn [fst snd]. destruct (find_join_bucket o None k) as [b k']. cbn [snd]. now rewrite Hul.
  - eapply Permutation_trans; [|exact Q1]. unfold pool, k0, keeper0, lefts. cbn. apply Permutation_refl.
  - intros B HB. destruct (Q3 B HB) as [Hne [[Hp _]|Hin]]; [discriminate Hp|]. split; assumption.
Qed.
