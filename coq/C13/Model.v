(* C13: executable Gallina model of the join verb (pkg/transformers/join.go, utils/join_bucket*.go).
   Definitions only.  Left file and right stream are lists of records. *)
From Miller Require Import Base.Bytes Base.Record.
Open Scope char_scope.

Fixpoint join_with (sep : bytes) (l : list bytes) : bytes :=
  match l with
  | [] => []
  | [x] => x
  | x :: t => x ++ sep ++ join_with sep t
  end.
Definition joinc (l : list bytes) : bytes := join_with [","] l.

Record opts := mkOpts {
  lj : list bytes;          (* -l (defaults to -j) *)
  rj : list bytes;          (* -r (defaults to -j) *)
  oj : list bytes;          (* -j *)
  lp : bytes;               (* --lp *)
  rp : bytes;               (* --rp *)
  lk : option (list bytes); (* --lk *)
  np : bool;                (* --np : do not emit paired *)
  ul : bool;                (* --ul *)
  ur : bool;                (* --ur *)
  ie : bool                 (* --ignore-empty *)
}.

(* KeepLeftFieldNames: the set is the --lk names plus the left join-field names *)
Definition keep_left (o : opts) (l : record) : record :=
  match lk o with
  | None => l
  | Some ks => filter (fun kv => mem (fst kv) (ks ++ lj o)) l
  end.

(* GetSelectedValues...: None when a name is missing *)
Fixpoint selected (names : list bytes) (r : record) : option (list bytes) :=
  match names with
  | [] => Some []
  | n :: t => match get n r, selected t r with Some v, Some vs => Some (v :: vs) | _, _ => None end
  end.
Definition any_empty (vs : list bytes) : bool := existsb (fun v => match v with [] => true | _ => false end) vs.
(* the join-field values of a record, when it is pairable at all *)
Definition key_of (ignore_empty : bool) (names : list bytes) (r : record) : option (list bytes) :=
  match selected names r with
  | Some vs => if ignore_empty && any_empty vs then None else Some vs
  | None => None
  end.

(* formAndEmitPairs, one (left, right) pair *)
Fixpoint put_join_fields (ln on : list bytes) (l : record) (out : record) : record :=
  match ln, on with
  | a :: ln', b :: on' => put_join_fields ln' on' l (match get a l with Some v => put b v out | None => out end)
  | _, _ => out
  end.
Definition put_others (skip : list bytes) (prefix : bytes) (r : record) (out : record) : record :=
  fold_left (fun out kv => if mem (fst kv) skip then out else put (prefix ++ fst kv) (snd kv) out) r out.
Definition compose (o : opts) (l r : record) : record :=
  put_others (rj o) (rp o) r (put_others (lj o) (lp o) l (put_join_fields (lj o) (oj o) l [])).

(* transformUnpairedRecord *)
Fixpoint lists_eqb (a b : list bytes) : bool :=
  match a, b with
  | [], [] => true
  | x :: a', y :: b' => beqb x y && lists_eqb a' b'
  | _, _ => false
  end.
(* renameMap[name] = output name; a later index overwrites an earlier one *)
Fixpoint rename_lookup (names outs : list bytes) (k : bytes) (acc : option bytes) : option bytes :=
  match names, outs with
  | n :: names', b :: outs' => rename_lookup names' outs' k (if beqb k n then Some b else acc)
  | _, _ => acc
  end.
Definition unpaired (o : opts) (names : list bytes) (prefix : bytes) (r : record) : record :=
  if lists_eqb names (firstn (List.length names) (oj o)) && beqb prefix [] then r
  else fold_left (fun out kv => match rename_lookup names (oj o) (fst kv) None with
                                | Some n => put n (snd kv) out
                                | None => put (prefix ++ fst kv) (snd kv) out
                                end) r [].
Definition unpaired_left (o : opts) := unpaired o (lj o) (lp o).
Definition unpaired_right (o : opts) := unpaired o (rj o) (rp o).

(* ------------------------------------------------------------------ unsorted (half-streaming) mode *)
(* bucket: grouping key (values joined by ","), records in left-file order, WasPaired *)
Definition lbucket := (bytes * list record * bool)%type.

Fixpoint add_left (k : bytes) (l : record) (bs : list lbucket) : list lbucket :=
  match bs with
  | [] => [(k, [l], false)]
  | (k', ls, p) :: t => if beqb k k' then (k', ls ++ [l], p) :: t else (k', ls, p) :: add_left k l t
  end.
(* ingestLeftFile: (buckets, leftUnpairable) *)
Fixpoint ingest (o : opts) (left : list record) (bs : list lbucket) (un : list record) : list lbucket * list record :=
  match left with
  | [] => (bs, un)
  | l0 :: t =>
    let l := keep_left o l0 in
    match key_of (ie o) (lj o) l with
    | Some vs => ingest o t (add_left (joinc vs) l bs) un
    | None => ingest o t bs (un ++ [l])
    end
  end.
Fixpoint find_bucket (k : bytes) (bs : list lbucket) : option (list record) :=
  match bs with
  | [] => None
  | (k', ls, _) :: t => if beqb k k' then Some ls else find_bucket k t
  end.
Fixpoint mark_paired (k : bytes) (bs : list lbucket) : list lbucket :=
  match bs with
  | [] => []
  | (k', ls, p) :: t => if beqb k k' then (k', ls, true) :: t else (k', ls, p) :: mark_paired k t
  end.
(* one right record: (emitted, buckets') *)
Definition step_right (o : opts) (bs : list lbucket) (r : record) : list record * list lbucket :=
  match key_of (ie o) (rj o) r with
  | Some vs =>
    match find_bucket (joinc vs) bs with
    | None => ((if ur o then [unpaired_right o r] else []), bs)
    | Some ls => ((if np o then [] else map (fun l => compose o l r) ls), mark_paired (joinc vs) bs)
    end
  | None => ((if ur o then [unpaired_right o r] else []), bs)
  end.
Fixpoint run_right (o : opts) (bs : list lbucket) (right : list record) : list record * list lbucket :=
  match right with
  | [] => ([], bs)
  | r :: t => let '(e, bs') := step_right o bs r in let '(es, bs'') := run_right o bs' t in (e ++ es, bs'')
  end.
Definition left_unpaired_out (o : opts) (bs : list lbucket) (un : list record) : list record :=
  map (unpaired_left o) (flat_map (fun b : lbucket => if snd b then [] else snd (fst b)) bs ++ un).
Definition join_unsorted (o : opts) (left right : list record) : list record :=
  let '(bs, un) := ingest o left [] [] in
  let '(out, bs') := run_right o bs right in
  out ++ (if ul o then left_unpaired_out o bs' un else []).

(* ------------------------------------------------------------------ sorted (doubly-streaming) mode: JoinBucketKeeper *)
Fixpoint bcmp (a b : bytes) : comparison :=
  match a, b with
  | [], [] => Eq
  | [], _ :: _ => Lt
  | _ :: _, [] => Gt
  | x :: a', y :: b' => match (code x ?= code y)%N with Eq => bcmp a' b' | c => c end
  end.
Fixpoint cmp_lex (a b : list bytes) : comparison :=
  match a, b with
  | x :: a', y :: b' => match bcmp x y with Eq => cmp_lex a' b' | c => c end
  | _, _ => Eq
  end.

Record keeper := mkKeeper {
  peek : option record;
  bvals : option (list bytes);   (* JoinBucket.leftFieldValues *)
  brecs : list record;           (* JoinBucket.RecordsAndContexts *)
  bpaired : bool;
  lun : list record;             (* leftUnpaireds *)
  rem : list record;             (* what the left reader has not delivered yet *)
  leof : bool;
  kstate : nat
}.

Definition has_keys (o : opts) (r : record) : bool :=
  match key_of (ie o) (lj o) r with Some _ => true | None => false end.
Definition vals_of (o : opts) (r : record) : list bytes :=
  match selected (lj o) r with Some vs => vs | None => [] end.

(* read until a record with join keys or EOF; key-less ones go to leftUnpaireds *)
Fixpoint skip_keyless (o : opts) (rm : list record) (un : list record) : option record * list record * list record :=
  match rm with
  | [] => (None, [], un)
  | q :: t => if has_keys o q then (Some q, t, un) else skip_keyless o t (un ++ [q])
  end.

Definition compute_state (k : keeper) : nat :=
  match bvals k with
  | None => if leof k then 3 else 0
  | Some _ => match peek k with None => 2 | Some _ => 1 end
  end.

Definition prepare_first (o : opts) (k : keeper) : keeper :=
  let '(p, rm, un) := skip_keyless o (rem k) (lun k) in
  mkKeeper p (bvals k) (brecs k) (bpaired k) un rm (match p with None => true | Some _ => leof k end) (kstate k).

(* the read loop of fillNextJoinBucket *)
Fixpoint fill_loop (o : opts) (bv : list bytes) (rm : list record) (recs un : list record)
  : option record * list record * list record * list record * bool :=
  match rm with
  | [] => (None, [], recs, un, true)
  | q :: t =>
    if has_keys o q
    then match cmp_lex bv (vals_of o q) with
         | Eq => fill_loop o bv t (recs ++ [q]) un
         | _ => (Some q, t, recs, un, false)
         end
    else fill_loop o bv t recs (un ++ [q])
  end.
Definition fill_next (o : opts) (k : keeper) : keeper :=
  match peek k with
  | None => k
  | Some p =>
    let bv := vals_of o p in
    let '(pk, rm, recs, un, eof) := fill_loop o bv (rem k) (brecs k ++ [p]) (lun k) in
    mkKeeper pk (Some bv) recs false un rm (if eof then true else leof k) (kstate k)
  end.

(* the skipping loop of prepareForNewJoinBucket; fuel = number of left records still unread + 1 *)
Fixpoint advance (fuel : nat) (o : opts) (rv : list bytes) (p : record) (rm un : list record)
  : option record * list record * list record * bool :=
  match fuel with
  | O => (Some p, rm, un, false)
  | S f =>
    let '(p', rm', un') := skip_keyless o rm (un ++ [p]) in
    match p' with
    | None => (None, rm', un', true)
    | Some q => match cmp_lex (vals_of o q) rv with
                | Lt => advance f o rv q rm' un'
                | _ => (Some q, rm', un', false)
                end
    end
  end.
Definition prepare_new (o : opts) (rv : list bytes) (k : keeper) : keeper :=
  let un := if bpaired k then lun k else lun k ++ brecs k in
  match peek k with
  | None => mkKeeper None None [] false un (rem k) (leof k) (kstate k)
  | Some p =>
    match cmp_lex (vals_of o p) rv with
    | Lt => let '(p', rm', un', eof) := advance (S (List.length (rem k))) o rv p (rem k) un in
            mkKeeper p' None [] false un' rm' (if eof then true else leof k) (kstate k)
    | _ => mkKeeper (Some p) None [] false un (rem k) (leof k) (kstate k)
    end
  end.

Definition mark_remaining (k : keeper) : keeper :=
  let un := if bpaired k then lun k else lun k ++ brecs k in
  let un := match peek k with Some p => un ++ [p] | None => un end in
  mkKeeper None (bvals k) [] (bpaired k) (un ++ rem k) [] (leof k) (kstate k).

Definition set_state (k : keeper) : keeper :=
  mkKeeper (peek k) (bvals k) (brecs k) (bpaired k) (lun k) (rem k) (leof k) (compute_state k).
Definition set_paired (k : keeper) : keeper :=
  mkKeeper (peek k) (bvals k) (brecs k) true (lun k) (rem k) (leof k) (kstate k).

Definition maybe_fill (o : opts) (k : keeper) : keeper := match peek k with Some _ => fill_next o k | None => k end.

(* FindJoinBucket: (isPaired, keeper') ; rv = None is right EOF *)
Definition find_join_bucket (o : opts) (rv : option (list bytes)) (k : keeper) : bool * keeper :=
  let k := if Nat.eqb (kstate k) 0 then set_state (maybe_fill o (prepare_first o k)) else k in
  match rv with
  | Some rv =>
    if Nat.eqb (kstate k) 1 || Nat.eqb (kstate k) 2 then
      match cmp_lex (match bvals k with Some b => b | None => [] end) rv with
      | Lt =>
        let k := maybe_fill o (prepare_new o rv k) in
        match brecs k with
        | [] => (false, set_state k)
        | _ => match cmp_lex (match bvals k with Some b => b | None => [] end) rv with
               | Eq => (true, set_state (set_paired k))
               | _ => (false, set_state k)
               end
        end
      | Eq => (true, set_state (set_paired k))
      | Gt => (false, set_state k)
      end
    else (false, set_state k)
  | None => (false, set_state (mark_remaining k))
  end.

Definition clear_lun (k : keeper) : keeper :=
  mkKeeper (peek k) (bvals k) (brecs k) (bpaired k) [] (rem k) (leof k) (kstate k).

(* transformDoublyStreaming, one right record *)
Definition sorted_step (o : opts) (k : keeper) (r : record) : list record * keeper :=
  let '(paired, k) := match key_of (ie o) (rj o) r with
                      | Some vs => find_join_bucket o (Some vs) k
                      | None => (false, k)
                      end in
  let lefts_un := if ul o then map (unpaired_left o) (lun k) else [] in
  let k' := clear_lun k in
  (lefts_un
     ++ (if negb paired && ur o then [unpaired_right o r] else [])
     ++ (if paired && negb (np o) then map (fun l => compose o l r) (brecs k') else []), k').
Fixpoint sorted_run (o : opts) (k : keeper) (right : list record) : list record * keeper :=
  match right with
  | [] => ([], k)
  | r :: t => let '(e, k') := sorted_step o k r in let '(es, k'') := sorted_run o k' t in (e ++ es, k'')
  end.
Definition join_sorted (o : opts) (left right : list record) : list record :=
  let k0 := mkKeeper None None [] false [] (map (keep_left o) left) false 0 in
  let '(out, k) := sorted_run o k0 right in
  let '(_, k) := find_join_bucket o None k in
  out ++ (if ul o then map (unpaired_left o) (lun k) else []).
