(* C16 model, third part: the format language of the round-trip law.  A format is a literal prefix followed by
   parts (code, literal after the code); the bytes strftime receives are [pre ++ flat_print ps] and the bytes
   strptime receives are [pre ++ flat_parse ps].  A code that is a digit 1..9 stands for the Miller extension
   %<k>S on the printing side (seconds with k decimals) and for plain %S on the parsing side (pbnjay's strptime has
   no %<k>S; time.Parse accepts a fraction after the seconds).  Definitions only. *)
From Miller Require Import Base.Bytes C16.Model.
Open Scope char_scope.
Open Scope Z_scope.

Definition part := (ascii * bytes)%type.
Definition is_frac_code (c : ascii) : bool := in_range "1" "9" c.
Definition parse_code (c : ascii) : ascii := if is_frac_code c then "S" else c.

Fixpoint flat_print (ps : list part) : bytes :=
  match ps with
  | [] => []
  | (c, l) :: r => if is_frac_code c then "%" :: c :: "S" :: l ++ flat_print r else "%" :: c :: l ++ flat_print r
  end.
Fixpoint flat_parse (ps : list part) : bytes :=
  match ps with
  | [] => []
  | (c, l) :: r => "%" :: parse_code c :: l ++ flat_parse r
  end.

Definition no_pct (l : bytes) : bool := forallb (fun c => negb (Ascii.eqb c "%")) l.
Definition is_nil (l : bytes) : bool := match l with [] => true | _ => false end.

(* the numeric fixed-width codes Y m d H M S j, and the fractional-seconds codes *)
Definition num_code (c : ascii) : bool :=
  is_frac_code c || match code_width c with Some _ => true | None => false end.

(* every code numeric; literals free of '%', not starting with a digit, '.' or ','; only the last literal may be empty
   (two adjacent numeric fields would be read by pbnjay as one) *)
Fixpoint parts_ok (ps : list part) : bool :=
  match ps with
  | [] => true
  | (c, l) :: t =>
      num_code c && no_pct l && lit_ok l && (match t with [] => true | _ => negb (is_nil l) end) && parts_ok t
  end.

Definition has (c : ascii) (ps : list part) : bool := existsb (fun p => Ascii.eqb (parse_code (fst p)) c) ps.
(* the format determines the instant: year, (month and day) or day of year, hour, minute, second *)
Definition determines (ps : list part) : bool :=
  has "Y" ps && has "H" ps && has "M" ps && has "S" ps && ((has "m" ps && has "d" ps) || has "j" ps).
(* exactly one seconds field: with several, time.Parse keeps the fraction of an EARLIER seconds field when a later one has
   none, which the parts model (last field wins) does not reproduce -- such formats are left to the oracle *)
Definition seconds_parts (ps : list part) : nat := List.length (filter (fun p => Ascii.eqb (parse_code (fst p)) "S") ps).
Definition format_ok (pre : bytes) (ps : list part) : bool :=
  no_pct pre && parts_ok ps && determines ps && Nat.leb (seconds_parts ps) 1.

(* decimals of the LAST seconds field (a later seconds field overrides an earlier one in time.Parse) *)
Fixpoint last_frac (ps : list part) (k : nat) : nat :=
  match ps with
  | [] => k
  | (c, _) :: t => last_frac t (if is_frac_code c then Z.to_nat (dval c) else if Ascii.eqb c "S" then O else k)
  end.
Definition trunc_ns (k : nat) (ns : Z) : Z := ns / pow10 (9 - k) * pow10 (9 - k).

Definition frac_free (ps : list part) : bool := forallb (fun p => negb (is_frac_code (fst p))) ps.

(* the ISO-8601 and the local formats as parts *)
Definition ISO_PARTS : list part :=
  [("Y", ["-"]); ("m", ["-"]); ("d", ["T"]); ("H", [":"]); ("M", [":"]); ("S", ["Z"])].
Definition LOCAL_PARTS : list part :=
  [("Y", ["-"]); ("m", ["-"]); ("d", [" "]); ("H", [":"]); ("M", [":"]); ("S", [])].
(* sec2gmt(t, k) / sec2localtime(t, k, zone) for k = 1..9 print the seconds with k decimals *)
Definition iso_parts_k (k : ascii) : list part :=
  [("Y", ["-"]); ("m", ["-"]); ("d", ["T"]); ("H", [":"]); ("M", [":"]); (k, ["Z"])].
Definition local_parts_k (k : ascii) : list part :=
  [("Y", ["-"]); ("m", ["-"]); ("d", [" "]); ("H", [":"]); ("M", [":"]); (k, [])].
