(* C16: local time round trip.  For any well-formed transition table (offsets bounded by ZK, periods at least ZD = 4 ZK
   long), Go's time.Date zone resolution (of_local) inverts the wall-clock display (to_local) at every instant whose
   wall-clock reading is unambiguous (outside overlaps). *)
From Miller Require Import Base.Bytes C16.Model.
Open Scope Z_scope.

Definition zone := (Z * Z * Z)%type.   (* offset, start, end *)
Definition zo (z : zone) : Z := fst (fst z).
Definition zs (z : zone) : Z := snd (fst z).
Definition ze (z : zone) : Z := snd z.

Fixpoint zones_from (cs co : Z) (tr : list (Z * Z)) : list zone :=
  match tr with
  | [] => [(co, cs, OMEGA)]
  | (s, o) :: r => (co, cs, s) :: zones_from s o r
  end.
Definition zones (z : ztable) : list zone := zones_from ALPHA (z_base z) (z_trans z).

Lemma lookup_from_in tr : forall cs co t, cs <= t -> t < OMEGA ->
  let z := lookup_from cs co tr t in In z (zones_from cs co tr) /\ zs z <= t < ze z.
Proof.
  induction tr as [|[s o] r IH]; intros cs co t H1 H2; cbn [lookup_from zones_from].
  - cbv zeta. split; [now left|]. unfold zs, ze; cbn [fst snd]; lia.
  - destruct (Z.ltb_spec t s).
    + cbv zeta. split; [now left|]. unfold zs, ze; cbn [fst snd]; lia.
    + specialize (IH s o t ltac:(lia) H2). cbv zeta in *. destruct IH as [I1 I2]. split; [now right|exact I2].
Qed.

Lemma wf_from_cons cs co s o r :
  wf_from cs co ((s, o) :: r) = true -> Z.abs co <= ZK /\ cs + ZD <= s /\ wf_from s o r = true.
Proof.
  cbn [wf_from]. intros H. apply andb_true_iff in H. destruct H as [H1 H2]. apply andb_true_iff in H2. destruct H2 as [H2 H3].
  apply Z.leb_le in H1. apply Z.leb_le in H2. auto.
Qed.

Lemma zones_facts tr : forall cs co, wf_from cs co tr = true ->
  forall z, In z (zones_from cs co tr) ->
  (z = (co, cs, ze z) \/ cs + ZD <= zs z) /\ zs z + ZD <= ze z /\ Z.abs (zo z) <= ZK /\ cs <= zs z.
Proof.
  induction tr as [|[s o] r IH]; intros cs co Hwf z Hin.
  - cbn [wf_from] in Hwf. apply andb_true_iff in Hwf. destruct Hwf as [H1 H2]. apply Z.leb_le in H1. apply Z.leb_le in H2.
    cbn [zones_from In] in Hin. destruct Hin as [<-|[]]. unfold zs, ze, zo; cbn [fst snd]; repeat split; try lia. now left.
  - apply wf_from_cons in Hwf. destruct Hwf as (H1 & H2 & H3).
    cbn [zones_from In] in Hin. destruct Hin as [<-|Hin].
    + unfold zs, ze, zo; cbn [fst snd]; repeat split; try lia. now left.
    + specialize (IH s o H3 z Hin). destruct IH as (I1 & I2 & I3 & I5).
      unfold ZD in *; repeat split; try lia; right; lia.
Qed.

(* any two periods of a well-formed table are the same, adjacent, or at least ZD apart *)
Lemma zones_sep tr : forall cs co, wf_from cs co tr = true ->
  forall z1 z2, In z1 (zones_from cs co tr) -> In z2 (zones_from cs co tr) ->
  z1 = z2 \/ ze z1 = zs z2 \/ ze z1 + ZD <= zs z2 \/ ze z2 = zs z1 \/ ze z2 + ZD <= zs z1.
Proof.
  induction tr as [|[s o] r IH]; intros cs co Hwf z1 z2 H1 H2.
  - cbn [zones_from In] in *. destruct H1 as [<-|[]]. destruct H2 as [<-|[]]. now left.
  - pose proof Hwf as Hwf'. apply wf_from_cons in Hwf'. destruct Hwf' as (_ & _ & W).
    cbn [zones_from In] in H1, H2. destruct H1 as [<-|H1]; destruct H2 as [<-|H2].
    + now left.
    + pose proof (zones_facts r s o W z2 H2) as (F1 & F2 & _ & F4). right.
      destruct F1 as [F1|F1]; [left; rewrite F1; reflexivity | right; left; exact F1].
    + pose proof (zones_facts r s o W z1 H1) as (F1 & F2 & _ & F4). right. right. right.
      destruct F1 as [F1|F1]; [left; rewrite F1; reflexivity | right; exact F1].
    + exact (IH s o W z1 z2 H1 H2).
Qed.

Definition offset_of (z : ztable) (t : Z) : Z := zo (lookup z t).
Lemma offset_at_zo z t : offset_at z t = zo (lookup z t).
Proof. unfold offset_at, zo. destruct (lookup z t) as [[o s] e]. reflexivity. Qed.

(* the wall-clock reading of instant t is unambiguous: every period that could also display it has the same offset *)
Definition unambiguous_at (z : ztable) (t : Z) : Prop :=
  forall p, In p (zones z) -> zs p <= to_local z t - zo p < ze p -> zo p = offset_at z t.

Theorem of_local_to_local z t :
  wf_ztable z = true -> ALPHA + ZD <= t -> t <= OMEGA - ZD -> unambiguous_at z t -> of_local z (to_local z t) = t.
Proof.
  intros Hwf Hlo Hhi Hun. unfold wf_ztable in Hwf.
  pose proof (zones_facts _ _ _ Hwf) as F. pose proof (zones_sep _ _ _ Hwf) as S. fold (zones z) in F, S.
  unfold ZD, ZK in *.
  (* the period of t *)
  pose proof (lookup_from_in (z_trans z) ALPHA (z_base z) t ltac:(lia) ltac:(lia)) as Li. cbv zeta in Li.
  fold (lookup z t) in Li. fold (zones z) in Li. destruct Li as [Ii Ri].
  pose proof (F _ Ii) as (_ & Fi2 & Fi3 & _).
  unfold unambiguous_at in Hun. unfold to_local in *. rewrite offset_at_zo in *.
  set (zi := lookup z t) in *. set (L := t + zo zi) in *.
  (* the period of L read as UTC *)
  pose proof (lookup_from_in (z_trans z) ALPHA (z_base z) L ltac:(unfold L; lia) ltac:(unfold L; lia)) as Lj. cbv zeta in Lj.
  fold (lookup z L) in Lj. fold (zones z) in Lj. destruct Lj as [Ij Rj].
  pose proof (F _ Ij) as (_ & Fj2 & Fj3 & _).
  unfold of_local. set (zj := lookup z L) in *.
  assert (Ej : zj = (zo zj, zs zj, ze zj)) by (destruct zj as [[? ?] ?]; reflexivity).
  rewrite Ej. cbv beta iota.
  destruct (Z.eqb_spec (zo zj) 0) as [Z0|Z0].
  { pose proof (Hun zj Ij ltac:(lia)). lia. }
  set (utc := L - zo zj).
  destruct (Z.ltb_spec utc (zs zj)) as [B1|B1]; [|destruct (Z.leb_spec (ze zj) utc) as [B2|B2]]; cbn [orb].
  3: { pose proof (Hun zj Ij ltac:(unfold utc in *; lia)). lia. }
  all: rewrite offset_at_zo;
    pose proof (lookup_from_in (z_trans z) ALPHA (z_base z) utc ltac:(unfold utc, L; lia) ltac:(unfold utc, L; lia)) as Lk; cbv zeta in Lk;
    fold (lookup z utc) in Lk; fold (zones z) in Lk; destruct Lk as [Ik Rk];
    pose proof (F _ Ik) as (_ & Fk2 & Fk3 & _);
    set (zk := lookup z utc) in *;
    pose proof (S zi zj Ii Ij) as Sij; pose proof (S zi zk Ii Ik) as Sik; pose proof (S zj zk Ij Ik) as Sjk;
    assert (Ei : zi = zk -> zo zk = zo zi) by (intros H; now rewrite H);
    assert (Eij : zi = zj -> zo zj = zo zi /\ zs zj = zs zi /\ ze zj = ze zi) by (intros H; rewrite H; auto);
    assert (Ejk : zj = zk -> zs zk = zs zj /\ ze zk = ze zj) by (intros H; rewrite H; auto);
    unfold utc, L in *; clearbody zi zj zk;
    destruct Sij as [Sij|Sij]; [apply Eij in Sij; lia|];
    destruct Sik as [Sik|Sik]; [apply Ei in Sik; lia|];
    destruct Sjk as [Sjk|Sjk]; [apply Ejk in Sjk; lia|]; lia.
Qed.
