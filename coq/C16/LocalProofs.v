(* C16: the local-time round trip THROUGH THE TEXT: sec2localtime prints the wall clock of the zone, localtime2sec
   parses that text (strptime, format "%Y-%m-%d %H:%M:%S") and resolves it in the zone (time.Date rules).
   General theorem for any well-formed transition table; computed behaviour in every overlap and gap of the
   regenerated zone tables. *)
From Miller Require Import Base.Bytes C16.Model C16.Format C16.CivilProofs C16.TextProofs C16.Proofs C16.FormatProofs C16.GmtProofs C16.ZoneProofs gen.Gen_Zones.
Open Scope char_scope.
Open Scope Z_scope.

(* the text sec2localtime prints for instant t + ns/1e9 with k decimals, read back by localtime2sec *)
Theorem localtime2sec_sec2localtime z t ns k :
  wf_ztable z = true -> ALPHA + ZD <= t -> t <= OMEGA - ZD -> LO <= to_local z t <= HI ->
  0 <= ns < 1000000000 -> (k <= 9)%nat -> unambiguous_at z t ->
  localtime2sec z (fmt_time true (to_local z t) ns (Z.of_nat k)) = Some t.
Proof.
  intros Hwf H1 H2 HL Hns Hk Hun. unfold localtime2sec.
  rewrite (strp_exact_fmt_time true (to_local z t) ns k HL Hns Hk).
  pose proof (trunc_ns_range k ns Hns) as R.
  replace ((to_local z t * 1000000000 + trunc_ns k ns) / 1000000000) with (to_local z t)
    by (symmetry; rewrite Z.add_comm, Z.div_add by lia; rewrite Z.div_small by lia; lia).
  f_equal. now apply of_local_to_local.
Qed.

Corollary localtime2sec_sec2localtime_int z t :
  wf_ztable z = true -> ALPHA + ZD <= t -> t <= OMEGA - ZD -> LO <= to_local z t <= HI -> unambiguous_at z t ->
  localtime2sec z (sec2localtime_int z t 0) = Some t.
Proof.
  intros Hwf H1 H2 HL Hun. unfold sec2localtime_int.
  exact (localtime2sec_sec2localtime z t 0 0%nat Hwf H1 H2 HL ltac:(lia) ltac:(lia) Hun).
Qed.

(* localtime2gmt (sec2localtime t) = sec2gmt t, through both texts *)
Corollary localtime2gmt_sec2localtime z t :
  wf_ztable z = true -> ALPHA + ZD <= t -> t <= OMEGA - ZD -> LO <= to_local z t <= HI -> unambiguous_at z t ->
  localtime2gmt z (sec2localtime_int z t 0) = Some (sec2gmt_int t 0).
Proof. intros Hwf H1 H2 HL Hun. unfold localtime2gmt. now rewrite localtime2sec_sec2localtime_int. Qed.

(* gmt2localtime (sec2gmt t) = sec2localtime t *)
Corollary gmt2localtime_sec2gmt z t : LO <= t <= HI -> gmt2localtime z (sec2gmt_int t 0) = Some (sec2localtime_int z t 0).
Proof. intros Ht. unfold gmt2localtime. now rewrite gmt2sec_exact_sec2gmt. Qed.

(* ------------------------------------------------------------------ overlaps and gaps of the regenerated tables.
   At a transition (s, o2) after offset o1 the wall-clock readings in [s + min o1 o2, s + max o1 o2) are
   - shown twice when o2 < o1 (overlap): localtime2sec must return one of the two instants that display that reading;
     which one is recorded: the instant under the offset in force at "reading taken as UTC" (Go's first lookup) --
     for zones east of Greenwich that is the LATER instant (new offset), west of Greenwich the EARLIER one;
   - never shown when o2 > o1 (gap): Go normalises to reading - o1 or reading - o2 (an instant whose display is the
     reading shifted by the size of the gap). *)
Definition resolve_ok (z : ztable) (s o1 o2 w : Z) : bool :=
  let r := of_local z w in
  if o2 <? o1 then
    (* overlap: a genuine preimage, chosen by the offset found at w read as UTC *)
    (to_local z r =? w) && ((r =? w - o1) || (r =? w - o2)) &&
    (r =? w - (if (s <=? w) then o2 else o1))
  else
    (* gap: no preimage; the reading is shifted by the gap in one direction or the other *)
    ((r =? w - o1) || (r =? w - o2)) && negb (to_local z r =? w) &&
    ((to_local z r =? w + (o2 - o1)) || (to_local z r =? w - (o2 - o1))).

Fixpoint transitions_ok (z : ztable) (o1 : Z) (tr : list (Z * Z)) : bool :=
  match tr with
  | [] => true
  | (s, o2) :: rest =>
      let lo := s + Z.min o1 o2 in
      let hi := s + Z.max o1 o2 in
      forallb (resolve_ok z s o1 o2) [lo; lo + 1; (lo + hi) / 2; hi - 1] && transitions_ok z o2 rest
  end.
Definition zone_transitions_ok (z : ztable) : bool := transitions_ok z (z_base z) (z_trans z).

Lemma gen_zones_transitions_ok : forallb zone_transitions_ok gen_zones = true.
Proof. vm_compute. reflexivity. Qed.

(* through the text, at the first and last second of every overlap/gap: the text of the wall-clock reading parses *)
Definition text_resolve_ok (z : ztable) (w : Z) : bool :=
  match localtime2sec z (fmt_time true w 0 0) with Some r => r =? of_local z w | None => false end.
Fixpoint transitions_text_ok (z : ztable) (o1 : Z) (tr : list (Z * Z)) : bool :=
  match tr with
  | [] => true
  | (s, o2) :: rest =>
      forallb (text_resolve_ok z) [s + Z.min o1 o2; s + Z.max o1 o2 - 1] && transitions_text_ok z o2 rest
  end.
Lemma gen_zones_transitions_text_ok : forallb (fun z => transitions_text_ok z (z_base z) (z_trans z)) gen_zones = true.
Proof. vm_compute. reflexivity. Qed.
