(* C16 property theorems.  Only statements closed by [exact]; each followed by Print Assumptions. *)
From Miller Require Import Base.Record C16.Model C16.CivilProofs C16.TextProofs C16.Proofs C16.Verb C16.VerbProofs gen.Gen_Zones.
Open Scope Z_scope.

(* calendar inverses, ALL integers / all valid dates of all years (proleptic Gregorian) *)
Theorem C16_days_of_civil_of_days :
  forall z, let '(y, m, d) := civil_of_days z in valid_date y m d = true /\ days_of_civil y m d = z.
Proof. exact days_of_civil_of_days. Qed.
Print Assumptions C16_days_of_civil_of_days.

Theorem C16_civil_of_days_of_civil :
  forall y m d, valid_date y m d = true -> civil_of_days (days_of_civil y m d) = (y, m, d).
Proof. exact civil_of_days_of_civil. Qed.
Print Assumptions C16_civil_of_days_of_civil.

(* leap rule: the day count from one Jan 1 to the next is 366 exactly in leap years (4 / 100 / 400 rule), every year;
   and every month has its Gregorian length *)
Theorem C16_leap_rule :
  forall y, days_of_civil (y + 1) 1 1 - days_of_civil y 1 1 = if is_leap y then 366 else 365.
Proof. exact year_length. Qed.
Print Assumptions C16_leap_rule.

Theorem C16_month_lengths :
  forall y m, 1 <= m <= 12 ->
  (if m =? 12 then days_of_civil (y + 1) 1 1 else days_of_civil y (m + 1) 1) - days_of_civil y m 1 = days_in_month y m.
Proof. exact month_length. Qed.
Print Assumptions C16_month_lengths.

(* instants <-> broken-down UTC time, all integers *)
Theorem C16_sec_of_tm_of_sec : forall t, sec_of_tm (tm_of_sec t) = t.
Proof. exact sec_of_tm_of_sec. Qed.
Print Assumptions C16_sec_of_tm_of_sec.

Theorem C16_tm_fields_in_range :
  forall t, let x := tm_of_sec t in
  valid_date (tm_y x) (tm_mo x) (tm_d x) = true /\ 0 <= tm_h x < 24 /\ 0 <= tm_mi x < 60 /\ 0 <= tm_s x < 60.
Proof. exact tm_of_sec_fields. Qed.
Print Assumptions C16_tm_fields_in_range.

Theorem C16_year_1_to_9999 : forall t, LO <= t <= HI -> 1 <= tm_y (tm_of_sec t) <= 9999.
Proof. exact tm_year_range. Qed.
Print Assumptions C16_year_1_to_9999.

(* sec2gmtdate is the date part of sec2gmt *)
Theorem C16_sec2gmtdate_prefix_of_sec2gmt :
  forall n, exists rest, sec2gmt_int n 0 = sec2gmtdate_int n ++ "T"%char :: rest.
Proof. exact sec2gmtdate_is_prefix. Qed.
Print Assumptions C16_sec2gmtdate_prefix_of_sec2gmt.

(* sec2gmt leaves non-numeric values unchanged; the verb equals the function applied to the named fields *)
Theorem C16_sec2gmt_nonnumeric_unchanged : forall orig nd, sec2gmt_unary AOther orig nd = orig.
Proof. exact (fun orig nd => eq_refl). Qed.
Print Assumptions C16_sec2gmt_nonnumeric_unchanged.

Theorem C16_sec2gmt_verb_leaves_nonnumeric_records_unchanged :
  forall classify nd names r,
  (forall k v, In k names -> get k r = Some v -> classify v = AOther) -> sec2gmt_verb classify nd names r = r.
Proof. exact sec2gmt_verb_nonnumeric. Qed.
Print Assumptions C16_sec2gmt_verb_leaves_nonnumeric_records_unchanged.

Theorem C16_sec2gmt_verb_bystanders :
  forall classify nd names r k, ~ In k names -> get k (sec2gmt_verb classify nd names r) = get k r.
Proof. exact sec2gmt_verb_bystander. Qed.
Print Assumptions C16_sec2gmt_verb_bystanders.

(* gmt2sec (sec2gmt n) = n is FALSE of the code as it is: strptime goes through t.UnixNano(), which wraps outside
   1677..2262 (finding strptime-unixnano-overflow).  Witness: year 1. *)
Theorem C16_gmt2sec_sec2gmt_refuted :
  exists n, -62135596800 <= n <= 253402300799 /\ gmt2nsec (sec2gmt_int n 0) <> POk (n * 1000000000).
Proof. exact gmt2sec_refuted. Qed.
Print Assumptions C16_gmt2sec_sec2gmt_refuted.

(* PARTIAL: without the int64 wrap the parser recovers the instant -- established here only for a list of boundary
   instants by computation (tests, not a theorem over all n; the general proof over the text is not done) *)
Theorem C16_gmt2sec_sec2gmt_instances_partial :
  forallb gmt_roundtrip_ok (boundary_instants ++ [-62135596800; 253402300799; -62135596799; 253402300798]) = true.
Proof. exact gmt_roundtrip_instances. Qed.
Print Assumptions C16_gmt2sec_sec2gmt_instances_partial.

(* d/h/m/s inverses: refuted at exactly -2^63 (finding dhms-roundtrip-minint64) *)
Theorem C16_dhms_roundtrip_refuted_at_minint64 :
  exists n, in64 n = true /\ dhms2sec (sec2dhms n) <> Some n /\ hms2sec (sec2hms n) <> Some n.
Proof. exact dhms_refuted. Qed.
Print Assumptions C16_dhms_roundtrip_refuted_at_minint64.

(* PARTIAL: the inverse identities on a list of boundary integers incl. negatives and +-(2^63-1), by computation
   (tests; the general proof for all int64 other than -2^63 is not done) *)
Theorem C16_dhms_roundtrip_instances_partial : forallb dhms_ok dhms_ints = true.
Proof. exact dhms_roundtrip_instances. Qed.
Print Assumptions C16_dhms_roundtrip_instances_partial.

(* regenerated zone tables (Go tzdata, window 1900..2037): offsets bounded by 16 h, every period at least 64 h long *)
Theorem C16_gen_zones_wellformed : forallb wf_ztable gen_zones = true.
Proof. exact gen_zones_wf. Qed.
Print Assumptions C16_gen_zones_wellformed.

(* PARTIAL: localtime2gmt (gmt2localtime t) = t outside overlaps, checked by computation at every transition of every
   regenerated zone +- {1 s, 30 min, 1 h, 2 h} (the general theorem for all t is not done) *)
Theorem C16_zone_roundtrip_near_transitions_partial : forallb zone_roundtrip_ok gen_zones = true.
Proof. exact gen_zones_roundtrip_near_transitions. Qed.
Print Assumptions C16_zone_roundtrip_near_transitions_partial.

Example C16_nonvacuous :
  valid_date 2024 2 29 = true /\ valid_date 1900 2 29 = false /\ civil_of_days 0 = (1970, 1, 1)
  /\ civil_of_days (-719162) = (1, 1, 1) /\ days_of_civil 9999 12 31 = 2932896
  /\ S_ (sec2gmt_int 951782400 0) = "2000-02-29T00:00:00Z"%string.
Proof. vm_compute. repeat split; reflexivity. Qed.
