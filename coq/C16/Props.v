(* C16 property theorems.  Only statements closed by [exact]; each followed by Print Assumptions. *)
From Miller Require Import Base.Bytes C16.Model C16.CivilProofs C16.TextProofs C16.Proofs.
Open Scope Z_scope.

(* calendar inverses, ALL integers / all valid dates of all years (proleptic Gregorian) *)
Theorem C16_days_of_civil_of_days :
  forall z, let '(y, m, d) := civil_of_days z in valid_date y m d = true /\ days_of_civil y m d = z.
Proof. exact days_of_civil_of_days. Qed.
Print Assumptions C16_days_of_civil_of_days.

Theorem C16_civil_of_days_of_civil :
  forall y m d, valid_date y m d = true -> civil_of_days (days_of_civil y m d) = (y, m, d).
Proof. exact civil_of_days_of_civil. Qed.
Print Assumptions C16_civil_of_days_of_civil.

(* leap rule: the day count from one Jan 1 to the next is 366 exactly in leap years (4 / 100 / 400 rule), every year;
   and every month has its Gregorian length *)
Theorem C16_leap_rule :
  forall y, days_of_civil (y + 1) 1 1 - days_of_civil y 1 1 = if is_leap y then 366 else 365.
Proof. exact year_length. Qed.
Print Assumptions C16_leap_rule.

Theorem C16_month_lengths :
  forall y m, 1 <= m <= 12 ->
  (if m =? 12 then days_of_civil (y + 1) 1 1 else days_of_civil y (m + 1) 1) - days_of_civil y m 1 = days_in_month y m.
Proof. exact month_length. Qed.
Print Assumptions C16_month_lengths.

(* instants <-> broken-down UTC time, all integers *)
Theorem C16_sec_of_tm_of_sec : forall t, sec_of_tm (tm_of_sec t) = t.
Proof. exact sec_of_tm_of_sec. Qed.
Print Assumptions C16_sec_of_tm_of_sec.

Theorem C16_tm_fields_in_range :
  forall t, let x := tm_of_sec t in
  valid_date (tm_y x) (tm_mo x) (tm_d x) = true /\ 0 <= tm_h x < 24 /\ 0 <= tm_mi x < 60 /\ 0 <= tm_s x < 60.
Proof. exact tm_of_sec_fields. Qed.
Print Assumptions C16_tm_fields_in_range.

Theorem C16_year_1_to_9999 : forall t, LO <= t <= HI -> 1 <= tm_y (tm_of_sec t) <= 9999.
Proof. exact tm_year_range. Qed.
Print Assumptions C16_year_1_to_9999.

(* sec2gmtdate is the date part of sec2gmt *)
Theorem C16_sec2gmtdate_prefix_of_sec2gmt :
  forall n, exists rest, sec2gmt_int n 0 = sec2gmtdate_int n ++ "T"%char :: rest.
Proof. exact sec2gmtdate_is_prefix. Qed.
Print Assumptions C16_sec2gmtdate_prefix_of_sec2gmt.

Example C16_nonvacuous :
  valid_date 2024 2 29 = true /\ valid_date 1900 2 29 = false /\ civil_of_days 0 = (1970, 1, 1)
  /\ civil_of_days (-719162) = (1, 1, 1) /\ days_of_civil 9999 12 31 = 2932896
  /\ S_ (sec2gmt_int 951782400 0) = "2000-02-29T00:00:00Z"%string.
Proof. vm_compute. repeat split; reflexivity. Qed.
