(* C16 property theorems.  Only statements closed by [exact]; each followed by Print Assumptions. *)
From Miller Require Import Base.Record C16.Model C16.Format C16.CivilProofs C16.TextProofs C16.Proofs C16.FormatProofs C16.GmtProofs C16.DhmsProofs C16.ZoneProofs C16.LocalProofs C16.OverlapProofs C16.Verb C16.VerbProofs C16.Datediff C16.DatediffProofs gen.Gen_Zones.
Open Scope Z_scope.

(* calendar inverses, ALL integers / all valid dates of all years (proleptic Gregorian) *)
Theorem C16_days_of_civil_of_days :
  forall z, let '(y, m, d) := civil_of_days z in valid_date y m d = true /\ days_of_civil y m d = z.
Proof. exact days_of_civil_of_days. Qed.
Print Assumptions C16_days_of_civil_of_days.

Theorem C16_civil_of_days_of_civil :
  forall y m d, valid_date y m d = true -> civil_of_days (days_of_civil y m d) = (y, m, d).
Proof. exact civil_of_days_of_civil. Qed.
Print Assumptions C16_civil_of_days_of_civil.

(* leap rule: the day count from one Jan 1 to the next is 366 exactly in leap years (4 / 100 / 400 rule), every year;
   and every month has its Gregorian length *)
Theorem C16_leap_rule :
  forall y, days_of_civil (y + 1) 1 1 - days_of_civil y 1 1 = if is_leap y then 366 else 365.
Proof. exact year_length. Qed.
Print Assumptions C16_leap_rule.

Theorem C16_month_lengths :
  forall y m, 1 <= m <= 12 ->
  (if m =? 12 then days_of_civil (y + 1) 1 1 else days_of_civil y (m + 1) 1) - days_of_civil y m 1 = days_in_month y m.
Proof. exact month_length. Qed.
Print Assumptions C16_month_lengths.

(* instants <-> broken-down UTC time, all integers *)
Theorem C16_sec_of_tm_of_sec : forall t, sec_of_tm (tm_of_sec t) = t.
Proof. exact sec_of_tm_of_sec. Qed.
Print Assumptions C16_sec_of_tm_of_sec.

Theorem C16_tm_fields_in_range :
  forall t, let x := tm_of_sec t in
  valid_date (tm_y x) (tm_mo x) (tm_d x) = true /\ 0 <= tm_h x < 24 /\ 0 <= tm_mi x < 60 /\ 0 <= tm_s x < 60.
Proof. exact tm_of_sec_fields. Qed.
Print Assumptions C16_tm_fields_in_range.

Theorem C16_year_1_to_9999 : forall t, LO <= t <= HI -> 1 <= tm_y (tm_of_sec t) <= 9999.
Proof. exact tm_year_range. Qed.
Print Assumptions C16_year_1_to_9999.

(* sec2gmtdate is the date part of sec2gmt *)
Theorem C16_sec2gmtdate_prefix_of_sec2gmt :
  forall n, exists rest, sec2gmt_int n 0 = sec2gmtdate_int n ++ "T"%char :: rest.
Proof. exact sec2gmtdate_is_prefix. Qed.
Print Assumptions C16_sec2gmtdate_prefix_of_sec2gmt.

(* sec2gmt leaves non-numeric values unchanged; the verb equals the function applied to the named fields *)
Theorem C16_sec2gmt_nonnumeric_unchanged : forall orig nd, sec2gmt_unary AOther orig nd = orig.
Proof. exact (fun orig nd => eq_refl). Qed.
Print Assumptions C16_sec2gmt_nonnumeric_unchanged.

Theorem C16_sec2gmt_verb_leaves_nonnumeric_records_unchanged :
  forall classify nd names r,
  (forall k v, In k names -> get k r = Some v -> classify v = AOther) -> sec2gmt_verb classify nd names r = r.
Proof. exact sec2gmt_verb_nonnumeric. Qed.
Print Assumptions C16_sec2gmt_verb_leaves_nonnumeric_records_unchanged.

Theorem C16_sec2gmt_verb_bystanders :
  forall classify nd names r k, ~ In k names -> get k (sec2gmt_verb classify nd names r) = get k r.
Proof. exact sec2gmt_verb_bystander. Qed.
Print Assumptions C16_sec2gmt_verb_bystanders.

(* gmt2sec (sec2gmt n) = n for EVERY instant of the years 1..9999: the text printed by goTimeToFormattedTime is parsed
   back by the strptime model (pbnjay parts loop + time.Parse field rules) to exactly the instant n.
   gmt2sec_exact is t.Unix() of the parsed time; the final conversion float64(t.Unix()) + float64(0)/1e9 is exact for
   |n| < 2^53 (modelled on SpecFloat, tied by correspondence and by the computed instances below). *)
Theorem C16_strptime_of_sec2gmt :
  forall n, LO <= n <= HI -> strp_exact (sec2gmt_int n 0) ISO_FMT = POk (n * 1000000000).
Proof. exact strp_exact_sec2gmt. Qed.
Print Assumptions C16_strptime_of_sec2gmt.

Theorem C16_gmt2sec_sec2gmt : forall n, LO <= n <= HI -> gmt2sec_exact (sec2gmt_int n 0) = Some n.
Proof. exact gmt2sec_exact_sec2gmt. Qed.
Print Assumptions C16_gmt2sec_sec2gmt.

(* ---- THE GENERAL FORMAT LAW.  Format language (Format.v): a literal prefix, then parts (code, literal after it) over the
   numeric codes Y m d H M S j and the Miller fractional-seconds codes %1S..%9S (written as the digit), literals free of
   '%' and not starting with a digit/'.'/',' , only the last literal may be empty; "determines" = has Y, H, M, S and
   (m and d) or j; codes may repeat and come in any order.  For EVERY such format and EVERY instant of the years 1..9999
   (with any nanoseconds) strftime succeeds and strptime maps its output back to the instant, truncated to the decimals of
   the last seconds field.  The printing side has %<k>S where the parsing side has %S (pbnjay's strptime has no %<k>S:
   see C16_format_law_refuted_for_epoch_seconds_and_fractional_codes). *)
Theorem C16_format_law :
  forall pre ps t ns, format_ok pre ps = true -> LO <= t <= HI -> 0 <= ns < 1000000000 ->
  exists txt, strftime (pre ++ flat_print ps) t ns = Some txt /\
              strp_exact txt (pre ++ flat_parse ps) = POk (t * 1000000000 + trunc_ns (last_frac ps 0) ns).
Proof. exact format_law. Qed.
Print Assumptions C16_format_law.

(* the law in its literal form, one format text on both sides: strptime(strftime(t, f), f) = t *)
Theorem C16_strptime_strftime_same_format :
  forall pre ps t ns, format_ok pre ps = true -> frac_free ps = true -> LO <= t <= HI -> 0 <= ns < 1000000000 ->
  let f := pre ++ flat_parse ps in
  exists txt, strftime f t ns = Some txt /\ strp_exact txt f = POk (t * 1000000000).
Proof. exact format_law_same_format. Qed.
Print Assumptions C16_strptime_strftime_same_format.

Example C16_format_law_hypotheses_satisfiable :
  format_ok (B "at ") [("d"%char, B "/"); ("m"%char, B "/"); ("Y"%char, B " day "); ("j"%char, B " -- "); ("H"%char, B "h"); ("M"%char, B "m"); ("6"%char, B "s")] = true
  /\ S_ (B "at " ++ flat_print [("d"%char, B "/"); ("m"%char, B "/"); ("Y"%char, B " day "); ("j"%char, B " -- "); ("H"%char, B "h"); ("M"%char, B "m"); ("6"%char, B "s")])
     = "at %d/%m/%Y day %j -- %Hh%Mm%6Ss"%string
  /\ format_ok [] LOCAL_PARTS = true /\ frac_free LOCAL_PARTS = true /\ flat_parse LOCAL_PARTS = LOCAL_FMT
  /\ format_ok [] [("Y"%char, B "-"); ("m"%char, B "-"); ("d"%char, B " "); ("H"%char, B ":"); ("M"%char, B ":"); ("S"%char, B "")] = true
  /\ format_ok [] [("Y"%char, B "-"); ("m"%char, B ""); ("d"%char, B " "); ("H"%char, B ":"); ("M"%char, B ":"); ("S"%char, B "")] = false.
Proof. vm_compute. repeat split; reflexivity. Qed.

(* FULL statement of the property's law -- "for every format that determines the instant" -- is FALSE for formats with
   %s or %<k>S: strftime prints them, strptime answers ErrFormatUnsupported.  Known finding strptime-no-epoch-seconds-code. *)
Theorem C16_format_law_refuted_for_epoch_seconds_and_fractional_codes :
  (exists f t txt, LO <= t <= HI /\ strftime f t 0 = Some txt /\ strp_exact txt f = PErr)
  /\ (forall txt, strp_exact txt (B "%s") = PErr) /\ (forall txt, strp_exact txt (B "%Y-%m-%d %H:%M:%6S") = PErr).
Proof. exact (conj format_law_refuted_for_epoch_seconds strptime_rejects_epoch_seconds_and_fractional_codes). Qed.
Print Assumptions C16_format_law_refuted_for_epoch_seconds_and_fractional_codes.

(* sec2gmt / sec2localtime / nsec2gmt with k = 0..9 decimals print text that gmt2sec / localtime2sec / gmt2nsec parse back
   to the instant truncated to k decimals: every instant of the years 1..9999, every nanosecond value *)
Theorem C16_strptime_of_time_text_with_decimals :
  forall loc t ns k, LO <= t <= HI -> 0 <= ns < 1000000000 -> (k <= 9)%nat ->
  strp_exact (fmt_time loc t ns (Z.of_nat k)) (if loc then LOCAL_FMT else ISO_FMT) = POk (t * 1000000000 + trunc_ns k ns).
Proof. exact strp_exact_fmt_time. Qed.
Print Assumptions C16_strptime_of_time_text_with_decimals.

Theorem C16_gmt2nsec_nsec2gmt :
  forall t ns k, LO <= t <= HI -> 0 <= ns < 1000000000 -> (k <= 9)%nat -> MIN64 <= t * 1000000000 -> t * 1000000000 + ns <= MAX64 ->
  gmt2nsec (nsec2gmt (t * 1000000000 + ns) (Z.of_nat k)) = POk (t * 1000000000 + trunc_ns k ns).
Proof. exact gmt2nsec_nsec2gmt. Qed.
Print Assumptions C16_gmt2nsec_nsec2gmt.

(* ---- LOCAL TIME THROUGH THE TEXT: localtime2sec(sec2localtime(t, k, zone), zone) = t for any well-formed table at every
   instant with an unambiguous wall-clock reading, k = 0..9 decimals *)
Theorem C16_localtime2sec_sec2localtime :
  forall z t ns k, wf_ztable z = true -> ALPHA + ZD <= t -> t <= OMEGA - ZD -> LO <= to_local z t <= HI ->
  0 <= ns < 1000000000 -> (k <= 9)%nat -> unambiguous_at z t ->
  localtime2sec z (fmt_time true (to_local z t) ns (Z.of_nat k)) = Some t.
Proof. exact localtime2sec_sec2localtime. Qed.
Print Assumptions C16_localtime2sec_sec2localtime.

Theorem C16_localtime2sec_sec2localtime_gen_zones :
  forall z t, In z gen_zones -> ALPHA + ZD <= t -> t <= OMEGA - ZD -> LO <= to_local z t <= HI -> unambiguous_at z t ->
  localtime2sec z (sec2localtime_int z t 0) = Some t.
Proof. exact (fun z t Hin => localtime2sec_sec2localtime_int z t (proj1 (forallb_forall _ _) gen_zones_wf z Hin)). Qed.
Print Assumptions C16_localtime2sec_sec2localtime_gen_zones.

Theorem C16_localtime2gmt_sec2localtime :
  forall z t, wf_ztable z = true -> ALPHA + ZD <= t -> t <= OMEGA - ZD -> LO <= to_local z t <= HI -> unambiguous_at z t ->
  localtime2gmt z (sec2localtime_int z t 0) = Some (sec2gmt_int t 0).
Proof. exact localtime2gmt_sec2localtime. Qed.
Print Assumptions C16_localtime2gmt_sec2localtime.

Theorem C16_gmt2localtime_sec2gmt :
  forall z t, LO <= t <= HI -> gmt2localtime z (sec2gmt_int t 0) = Some (sec2localtime_int z t 0).
Proof. exact gmt2localtime_sec2gmt. Qed.
Print Assumptions C16_gmt2localtime_sec2gmt.

(* every overlap and gap of every regenerated zone table (bound: the transitions of gen_zones, window 1900..2037; four
   readings per transition: first, second, middle, last): in an overlap localtime2sec returns a genuine preimage, the one
   under the offset in force at "reading taken as UTC"; in a gap the reading shifted by the size of the gap *)
Theorem C16_overlaps_and_gaps_gen_zones : forallb zone_transitions_ok gen_zones = true.
Proof. exact gen_zones_transitions_ok. Qed.
Print Assumptions C16_overlaps_and_gaps_gen_zones.

Theorem C16_overlaps_and_gaps_text_gen_zones :
  forallb (fun z => transitions_text_ok z (z_base z) (z_trans z)) gen_zones = true.
Proof. exact gen_zones_transitions_text_ok. Qed.
Print Assumptions C16_overlaps_and_gaps_text_gen_zones.

(* ---- THE LOCAL ROUND TRIP AT ALL INSTANTS, OVERLAP HOURS INCLUDED (general lemma over ANY well-formed table and EVERY
   reading; no per-table computation).  "localtime2sec(sec2localtime(t)) = t for all t" is FALSE inside an overlap for one of
   the two instants that share a wall-clock reading; what holds for every t: time.Date's resolution of the reading of t is an
   instant r with the SAME reading, so r = t + (offset_at t - offset_at r): r = t when the offsets agree (always outside
   overlaps: C16_localtime2sec_sec2localtime), otherwise r is the other instant of the overlap, |r - t| = size of the overlap. *)
Theorem C16_local_round_trip_all_instants :
  forall z t, wf_ztable z = true -> ALPHA + ZD <= t -> t <= OMEGA - ZD ->
  to_local z (of_local z (to_local z t)) = to_local z t.
Proof. exact to_local_of_local_to_local. Qed.
Print Assumptions C16_local_round_trip_all_instants.

Theorem C16_local_round_trip_all_instants_offset :
  forall z t, wf_ztable z = true -> ALPHA + ZD <= t -> t <= OMEGA - ZD ->
  let r := of_local z (to_local z t) in r = t + (offset_at z t - offset_at z r).
Proof. exact of_local_to_local_all. Qed.
Print Assumptions C16_local_round_trip_all_instants_offset.

(* through the text, k = 0..9 decimals: at EVERY instant localtime2sec(sec2localtime(t, k, zone), zone) succeeds and returns an
   instant that sec2localtime prints as the same text *)
Theorem C16_localtime2sec_sec2localtime_all_instants :
  forall z t ns k, wf_ztable z = true -> ALPHA + ZD <= t -> t <= OMEGA - ZD -> LO <= to_local z t <= HI ->
  0 <= ns < 1000000000 -> (k <= 9)%nat ->
  exists r, localtime2sec z (fmt_time true (to_local z t) ns (Z.of_nat k)) = Some r /\
            to_local z r = to_local z t /\ r = t + (offset_at z t - offset_at z r) /\
            sec2localtime_int z r 0 = sec2localtime_int z t 0.
Proof. exact localtime2sec_sec2localtime_all. Qed.
Print Assumptions C16_localtime2sec_sec2localtime_all_instants.

(* non-vacuity: one overlap hour; an instant of the first pass is sent to the second pass, which is a fixed point *)
Example C16_local_round_trip_all_instants_nonvacuous :
  wf_ztable overlap_demo = true /\
  of_local overlap_demo (to_local overlap_demo 998200) = 1001800 /\
  to_local overlap_demo 1001800 = to_local overlap_demo 998200 /\
  of_local overlap_demo (to_local overlap_demo 1001800) = 1001800 /\
  of_local overlap_demo (to_local overlap_demo 990000) = 990000.
Proof. exact overlap_demo_facts. Qed.

(* EVERY wall-clock reading l, also those no instant shows (gaps), any well-formed table: localtime2sec's zone resolution
   answers l minus an offset of the table; the answer is a genuine preimage whenever ANY instant shows l; otherwise NO instant
   shows l (gap) and the answer shows l shifted by the difference of two offsets of the table *)
Theorem C16_local_resolution_every_reading :
  forall z l, wf_ztable z = true ->
  let r := of_local z l in
  (exists u, r = l - offset_at z u /\ to_local z r = l + (offset_at z r - offset_at z u)) /\
  (to_local z r = l \/ forall t, ALPHA + ZD <= t -> t <= OMEGA - ZD -> to_local z t <> l).
Proof. exact of_local_dichotomy. Qed.
Print Assumptions C16_local_resolution_every_reading.

Example C16_local_resolution_every_reading_nonvacuous :
  wf_ztable gap_demo = true /\
  of_local gap_demo 1005400 = 1005400 - 3600 /\ to_local gap_demo (of_local gap_demo 1005400) = 1005400 + 3600 /\
  to_local gap_demo 999999 = 1003599 /\ to_local gap_demo 1000000 = 1007200.
Proof. exact gap_demo_facts. Qed.

(* gmt2nsec returns int64 nanoseconds: exact whenever n * 10^9 fits in int64 (1677-09-21 .. 2262-04-11) *)
Theorem C16_gmt2nsec_sec2gmt :
  forall n, LO <= n <= HI -> MIN64 <= n * 1000000000 <= MAX64 -> gmt2nsec (sec2gmt_int n 0) = POk (n * 1000000000).
Proof. exact gmt2nsec_sec2gmt. Qed.
Print Assumptions C16_gmt2nsec_sec2gmt.

(* PARTIAL (computed instances, tests): the binary64 value gmt2sec returns is float64(n) *)
Theorem C16_gmt2sec_float_instances_partial :
  forallb gmt_float_ok (boundary_instants ++ [-62135596800; 253402300799; -62135596799; 253402300798]) = true.
Proof. exact gmt_float_instances. Qed.
Print Assumptions C16_gmt2sec_float_instances_partial.

(* d/h/m/s inverses: for EVERY int64 (incl. -2^63 since the repair of splitIntToDHMS) *)
Theorem C16_dhms2sec_sec2dhms : forall n, MIN64 <= n <= MAX64 -> dhms2sec (sec2dhms n) = Some n.
Proof. exact dhms_roundtrip. Qed.
Print Assumptions C16_dhms2sec_sec2dhms.

Theorem C16_hms2sec_sec2hms : forall n, MIN64 <= n <= MAX64 -> hms2sec (sec2hms n) = Some n.
Proof. exact hms_roundtrip. Qed.
Print Assumptions C16_hms2sec_sec2hms.

(* the former witness -2^63 (finding dhms-roundtrip-minint64, repaired: the magnitude is split as uint64) as an instance,
   with the texts it now prints *)
Theorem C16_dhms_roundtrip_at_minint64 :
  dhms_ok MIN64 = true /\ sec2dhms MIN64 = B "-106751991167300d15h30m08s" /\ sec2hms MIN64 = B "-2562047788015215:30:08".
Proof. exact dhms_minint64. Qed.
Print Assumptions C16_dhms_roundtrip_at_minint64.

(* local time: for ANY well-formed transition table (offsets within 16 h, periods at least 64 h), Go's time.Date zone
   resolution inverts the wall-clock display at every instant whose wall-clock reading is unambiguous (outside overlaps) *)
Theorem C16_local_roundtrip :
  forall z t, wf_ztable z = true -> ALPHA + ZD <= t -> t <= OMEGA - ZD -> unambiguous_at z t ->
  of_local z (to_local z t) = t.
Proof. exact of_local_to_local. Qed.
Print Assumptions C16_local_roundtrip.

(* regenerated zone tables (Go tzdata, window 1900..2037) are well-formed, so the theorem applies to each of them *)
Theorem C16_gen_zones_wellformed : forallb wf_ztable gen_zones = true.
Proof. exact gen_zones_wf. Qed.
Print Assumptions C16_gen_zones_wellformed.

Theorem C16_local_roundtrip_gen_zones :
  forall z t, In z gen_zones -> ALPHA + ZD <= t -> t <= OMEGA - ZD -> unambiguous_at z t -> of_local z (to_local z t) = t.
Proof. exact (fun z t Hin => of_local_to_local z t (proj1 (forallb_forall _ _) gen_zones_wf z Hin)). Qed.
Print Assumptions C16_local_roundtrip_gen_zones.

(* computed instances (tests): the round trip at every transition of every regenerated zone +- {1 s .. 2 h}, with the
   unambiguity condition decided by computation (shows the hypothesis is met right next to transitions) *)
Theorem C16_zone_roundtrip_near_transitions_instances : forallb zone_roundtrip_ok gen_zones = true.
Proof. exact gen_zones_roundtrip_near_transitions. Qed.
Print Assumptions C16_zone_roundtrip_near_transitions_instances.

(* datediff(a, b, "d") is the difference of the civil day numbers of the two instants: all integers, any distance,
   either order (the result is negative when a is after b) *)
Theorem C16_datediff_days : forall a b, datediff a b UD = b / 86400 - a / 86400.
Proof. exact datediff_d. Qed.
Print Assumptions C16_datediff_days.

Theorem C16_datediff_days_of_dates :
  forall y1 m1 d1 y2 m2 d2 s1 s2,
  valid_date y1 m1 d1 = true -> valid_date y2 m2 d2 = true -> 0 <= s1 < 86400 -> 0 <= s2 < 86400 ->
  datediff (days_of_civil y1 m1 d1 * 86400 + s1) (days_of_civil y2 m2 d2 * 86400 + s2) UD
  = days_of_civil y2 m2 d2 - days_of_civil y1 m1 d1.
Proof. exact datediff_d_dates. Qed.
Print Assumptions C16_datediff_days_of_dates.

Theorem C16_datediff_antisymmetric : forall a b u, a < b -> datediff b a u = - datediff a b u.
Proof. exact datediff_antisym. Qed.
Print Assumptions C16_datediff_antisymmetric.

Theorem C16_datediff_months_decomposition : forall a b, datediff a b UM = 12 * datediff a b UY + datediff a b UYM.
Proof. exact datediff_ym_decomposition. Qed.
Print Assumptions C16_datediff_months_decomposition.

Example C16_nonvacuous :
  valid_date 2024 2 29 = true /\ valid_date 1900 2 29 = false /\ civil_of_days 0 = (1970, 1, 1)
  /\ civil_of_days (-719162) = (1, 1, 1) /\ days_of_civil 9999 12 31 = 2932896
  /\ S_ (sec2gmt_int 951782400 0) = "2000-02-29T00:00:00Z"%string
  /\ datediff (-62135596800) 253402300799 UD = 3652058 /\ datediff 1577836800 1684108800 UYD = 134
  /\ datediff 1577836800 1684108800 UMD = 14 /\ datediff 1684108800 1577836800 UY = -3.
Proof. vm_compute. repeat split; reflexivity. Qed.
