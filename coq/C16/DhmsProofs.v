(* C16: dhms2sec (sec2dhms n) = n and hms2sec (sec2hms n) = n for EVERY int64 n (incl. -2^63 after the uint64-magnitude repair) *)
From Miller Require Import Base.Bytes C16.Model C16.TextProofs C16.FormatProofs C16.GmtProofs.
Open Scope char_scope.
Open Scope Z_scope.

Definition numtext (t : bytes) (v : Z) : Prop := t <> [] /\ forallb is_digit t = true /\ parse_acc 0 t = v.

Lemma MAX64_lt_BIG : MAX64 < BIG.
Proof. vm_compute. reflexivity. Qed.

Lemma numtext_dec_nn v : 0 <= v <= MAX64 -> numtext (dec_nn v) v.
Proof.
  intros H. pose proof MAX64_lt_BIG. repeat split; [apply dec_nn_nonempty | apply dec_nn_digits | apply dec_nn_value; lia].
Qed.

Lemma numtext_padnn w v : 0 <= v <= MAX64 -> numtext (padnn w v) v.
Proof.
  intros H. pose proof MAX64_lt_BIG. repeat split; [apply padnn_nonempty | apply padnn_digits | apply padnn_value; lia].
Qed.

Lemma digit_not_sign c : is_digit c = true -> Ascii.eqb c "-" = false /\ Ascii.eqb c "+" = false.
Proof. destruct c as [[] [] [] [] [] [] [] []]; cbn; intros H; try discriminate H; split; reflexivity. Qed.

Lemma in64_range v : in64 v = true <-> MIN64 <= v <= MAX64.
Proof. unfold in64. rewrite andb_true_iff, !Z.leb_le. tauto. Qed.

Lemma scan_int_numtext t v u rest :
  numtext t v -> in64 v = true -> is_digit u = false -> scan_int (t ++ u :: rest) = Some (v, u :: rest).
Proof.
  intros (Hne & Hd & Hv) Hin Hu. destruct t as [|c t']; [congruence|].
  pose proof Hd as Hd'. cbn [forallb] in Hd'. apply andb_true_iff in Hd'. destruct Hd' as [Hc _].
  destruct (digit_not_sign c Hc) as [E1 E2].
  unfold scan_int. cbn [app]. rewrite E1, E2.
  change (c :: t' ++ u :: rest) with ((c :: t') ++ u :: rest). rewrite (span_digits_app _ _ _ Hd Hu).
  cbv beta iota zeta. rewrite Hv, Hin. reflexivity.
Qed.

Lemma scan_int_numtext_end t v : numtext t v -> in64 v = true -> scan_int t = Some (v, []).
Proof.
  intros (Hne & Hd & Hv) Hin. destruct t as [|c t']; [congruence|].
  pose proof Hd as Hd'. cbn [forallb] in Hd'. apply andb_true_iff in Hd'. destruct Hd' as [Hc _].
  destruct (digit_not_sign c Hc) as [E1 E2].
  unfold scan_int. rewrite E1, E2. rewrite (span_digits_all _ Hd).
  cbv beta iota zeta. rewrite Hv, Hin. reflexivity.
Qed.

(* ---- component lists *)
Definition comp := (bytes * Z * Z * ascii)%type.
Definition good (c : comp) : Prop :=
  let '(t, v, k, u) := c in
  numtext t v /\ in64 v = true /\
  ((u = "d" /\ k = 86400) \/ (u = "h" /\ k = 3600) \/ (u = "m" /\ k = 60) \/ (u = "s" /\ k = 1)).

Fixpoint flat (L : list comp) : bytes :=
  match L with [] => [] | (t, _, _, u) :: r => t ++ u :: flat r end.
Fixpoint acc_of (L : list comp) (acc : Z) : Z :=
  match L with [] => acc | (_, v, k, _) :: r => acc_of r (wrap64 (acc + wrap64 (v * k))) end.

Lemma dhms_loop_nil f acc : dhms_loop f [] acc = Some acc.
Proof. destruct f; reflexivity. Qed.

Lemma dhms_loop_flat L : Forall good L -> forall fuel acc, (List.length L <= fuel)%nat -> dhms_loop fuel (flat L) acc = Some (acc_of L acc).
Proof.
  induction L as [|[[[t v] k] u] r IH]; intros HL fuel acc Hf.
  - cbn [flat acc_of]. apply dhms_loop_nil.
  - inversion HL as [|? ? Hg Hr]; subst. destruct Hg as (Hn & Hin & Hu).
    destruct fuel as [|f]; [cbn in Hf; lia|]. cbn [List.length] in Hf.
    cbn [flat acc_of].
    assert (Hnd : is_digit u = false) by (destruct Hu as [[-> _]|[[-> _]|[[-> _]|[-> _]]]]; reflexivity).
    pose proof Hn as (Hne & _ & _). destruct t as [|c t']; [congruence|].
    cbn [app dhms_loop].
    change (c :: t' ++ u :: flat r) with ((c :: t') ++ u :: flat r).
    rewrite (scan_int_numtext _ _ _ _ Hn Hin Hnd).
    destruct Hu as [[-> ->]|[[-> ->]|[[-> ->]|[-> ->]]]]; eval_eqb; cbv beta iota; try (apply IH; [assumption|lia]).
    rewrite Z.mul_1_r. rewrite (wrap64_id v) by (now apply in64_range). apply IH; [assumption|lia].
Qed.

Lemma flat_length L : Forall good L -> (List.length L <= List.length (flat L))%nat.
Proof.
  induction L as [|[[[t v] k] u] r IH]; intros HL; [cbn; lia|].
  inversion HL; subst. cbn [flat List.length]. rewrite app_length. cbn [List.length]. specialize (IH H2). lia.
Qed.

Lemma numtext_head t v : numtext t v -> exists c t', t = c :: t' /\ is_digit c = true.
Proof.
  intros (Hne & Hd & _). destruct t as [|c t']; [congruence|]. exists c, t'. split; [reflexivity|].
  cbn [forallb] in Hd. now apply andb_true_iff in Hd.
Qed.

Lemma dhms2sec_flat_pos L : Forall good L -> L <> [] -> dhms2sec (flat L) = Some (acc_of L 0).
Proof.
  intros HL Hne. destruct L as [|[[[t v] k] u] r]; [congruence|].
  pose proof (flat_length _ HL) as Hlen.
  inversion HL as [|? ? Hg Hr]; subst. destruct Hg as (Hn & _ & _).
  destruct (numtext_head _ _ Hn) as (c & t' & -> & Hc). destruct (digit_not_sign c Hc) as [E1 _].
  unfold dhms2sec. cbn [flat app] in *. rewrite E1.
  change (c :: t' ++ u :: flat r) with (flat ((c :: t', v, k, u) :: r)) in *.
  apply dhms_loop_flat; assumption.
Qed.

Lemma dhms2sec_flat_neg L : Forall good L -> dhms2sec ("-" :: flat L) = Some (wrap64 (- acc_of L 0)).
Proof.
  intros HL. pose proof (flat_length _ HL) as Hlen. unfold dhms2sec. eval_eqb. cbv beta iota.
  rewrite (dhms_loop_flat L HL) by (cbn [List.length]; lia). reflexivity.
Qed.

(* ---- splitIntToDHMS / splitMagnitudeToDHMS on every magnitude up to 2^63 *)
Lemma split_dhms_spec n :
  MIN64 <= n <= MAX64 + 1 ->
  let u := Z.abs n in let sg := if n <? 0 then -1 else 1 in
  let s := u mod 60 in let u1 := u / 60 in let m := u1 mod 60 in let u2 := u1 / 60 in
  let h := u2 mod 24 in let u3 := u2 / 24 in
  split_dhms n = if u1 =? 0 then (0, 0, 0, s * sg) else if u2 =? 0 then (0, 0, m * sg, s)
                 else if u3 =? 0 then (0, h * sg, m, s) else (u3 * sg, h, m, s).
Proof.
  intros Hn u sg s u1 m u2 h u3. unfold split_dhms.
  assert (Hu : 0 <= u <= MAX64 + 1) by (unfold u, MIN64, MAX64 in *; lia).
  fold u sg.
  rewrite (Z.rem_mod_nonneg u 60), (Z.quot_div_nonneg u 60) by lia. fold s u1.
  assert (Hs : 0 <= s < 60) by (apply Z.mod_pos_bound; lia).
  assert (Hu1 : 0 <= u1 <= MAX64) by (unfold u1, MAX64 in *; split; [apply Z.div_pos; lia | apply Z.div_le_upper_bound; lia]).
  assert (Hsg : sg = 1 \/ sg = -1) by (unfold sg; destruct (n <? 0); auto).
  destruct (u1 =? 0).
  { rewrite wrap64_id by (unfold MIN64, MAX64; destruct Hsg as [-> | ->]; lia). reflexivity. }
  rewrite (Z.rem_mod_nonneg u1 60), (Z.quot_div_nonneg u1 60) by lia. fold m u2.
  assert (Hm : 0 <= m < 60) by (apply Z.mod_pos_bound; lia).
  assert (Hu2 : 0 <= u2 <= MAX64) by (unfold u2, MAX64 in *; split; [apply Z.div_pos; lia | apply Z.div_le_upper_bound; lia]).
  destruct (u2 =? 0).
  { rewrite wrap64_id by (unfold MIN64, MAX64; destruct Hsg as [-> | ->]; lia). reflexivity. }
  rewrite (Z.rem_mod_nonneg u2 24), (Z.quot_div_nonneg u2 24) by lia. fold h u3.
  assert (Hh : 0 <= h < 24) by (apply Z.mod_pos_bound; lia).
  assert (Hu3 : 0 <= u3 <= MAX64) by (unfold u3, MAX64 in *; split; [apply Z.div_pos; lia | apply Z.div_le_upper_bound; lia]).
  destruct (u3 =? 0).
  { rewrite wrap64_id by (unfold MIN64, MAX64; destruct Hsg as [-> | ->]; lia). reflexivity. }
  rewrite wrap64_id by (unfold MIN64, MAX64 in *; destruct Hsg as [-> | ->]; lia). reflexivity.
Qed.

(* ---- sec2dhms / dhms2sec *)
Lemma dec_lead_pos x : 0 <= x -> dec (x * 1) = dec_nn x.
Proof. intros H. rewrite Z.mul_1_r. unfold dec. destruct (Z.ltb_spec x 0); [lia|reflexivity]. Qed.
Lemma dec_lead_neg x : 0 < x -> dec (x * -1) = "-" :: dec_nn x.
Proof. intros H. unfold dec. destruct (Z.ltb_spec (x * -1) 0); [|lia]. f_equal. f_equal. lia. Qed.

Lemma shape_pos L n : Forall good L -> L <> [] -> acc_of L 0 = n -> dhms2sec (flat L) = Some n.
Proof. intros HL Hne <-. now apply dhms2sec_flat_pos. Qed.
Lemma shape_neg L n : Forall good L -> wrap64 (- acc_of L 0) = n -> dhms2sec ("-" :: flat L) = Some n.
Proof. intros HL <-. now apply dhms2sec_flat_neg. Qed.

Lemma good_lead x k u :
  0 <= x <= MAX64 -> ((u = "d" /\ k = 86400) \/ (u = "h" /\ k = 3600) \/ (u = "m" /\ k = 60) \/ (u = "s" /\ k = 1)) ->
  good (dec_nn x, x, k, u).
Proof. intros Hx Hu. unfold good. split; [now apply numtext_dec_nn|]. split; [apply in64_range; unfold MIN64, MAX64 in *; lia|exact Hu]. Qed.
Lemma good_pad x k u :
  0 <= x <= MAX64 -> ((u = "d" /\ k = 86400) \/ (u = "h" /\ k = 3600) \/ (u = "m" /\ k = 60) \/ (u = "s" /\ k = 1)) ->
  good (padnn 2 x, x, k, u).
Proof. intros Hx Hu. unfold good. split; [now apply numtext_padnn|]. split; [apply in64_range; unfold MIN64, MAX64 in *; lia|exact Hu]. Qed.

Ltac unwrap := repeat match goal with |- context [wrap64 ?z] => rewrite (wrap64_id z) by (unfold MIN64, MAX64 in *; lia) end.
Ltac goods := repeat (apply Forall_cons; [first [apply good_lead | apply good_pad]; [unfold MAX64 in *; lia | tauto] |]); apply Forall_nil.

Lemma dhms_roundtrip_minint64 : dhms2sec (sec2dhms MIN64) = Some MIN64 /\ hms2sec (sec2hms MIN64) = Some MIN64.
Proof. vm_compute. split; reflexivity. Qed.

Theorem dhms_roundtrip n : MIN64 <= n <= MAX64 -> dhms2sec (sec2dhms n) = Some n.
Proof.
  intros Hn0. destruct (Z.eq_dec n MIN64) as [->|Hne]; [exact (proj1 dhms_roundtrip_minint64)|].
  assert (Hn : MIN64 < n <= MAX64) by lia.
  unfold sec2dhms. rewrite (split_dhms_spec n ltac:(unfold MIN64, MAX64 in *; lia)). cbv zeta.
  set (u := Z.abs n). set (s := u mod 60). set (u1 := u / 60). set (m := u1 mod 60). set (u2 := u1 / 60).
  set (h := u2 mod 24). set (u3 := u2 / 24).
  assert (Hu : 0 <= u <= MAX64) by (unfold u, MIN64, MAX64 in *; lia).
  assert (Hs : 0 <= s < 60) by (apply Z.mod_pos_bound; lia).
  assert (Hm : 0 <= m < 60) by (apply Z.mod_pos_bound; lia).
  assert (Hh : 0 <= h < 24) by (apply Z.mod_pos_bound; lia).
  assert (E1 : u = u1 * 60 + s) by (unfold s, u1; pose proof (Z.div_mod u 60 ltac:(lia)); lia).
  assert (E2 : u1 = u2 * 60 + m) by (unfold m, u2; pose proof (Z.div_mod u1 60 ltac:(lia)); lia).
  assert (E3 : u2 = u3 * 24 + h) by (unfold h, u3; pose proof (Z.div_mod u2 24 ltac:(lia)); lia).
  assert (P1 : 0 <= u1) by (apply Z.div_pos; lia).
  assert (P2 : 0 <= u2) by (apply Z.div_pos; lia).
  assert (P3 : 0 <= u3) by (apply Z.div_pos; lia).
  clearbody s m h u1 u2 u3.
  destruct (Z.ltb_spec n 0) as [Hneg|Hpos].
  - (* negative: the leading component carries the sign *)
    assert (En : n = - u) by (unfold u; lia). clearbody u.
    destruct (Z.eqb_spec u1 0) as [Z1|Z1].
    { cbn [Z.eqb negb]. rewrite dec_lead_neg by lia.
      apply (shape_neg [(dec_nn s, s, 1, "s")]); [goods|]. cbn [acc_of]. unwrap. lia. }
    destruct (Z.eqb_spec u2 0) as [Z2|Z2].
    { cbn [Z.eqb negb]. replace (m * -1 =? 0) with false by (symmetry; apply Z.eqb_neq; lia). cbn [negb].
      rewrite dec_lead_neg by lia. rewrite padz_nonneg by lia.
      apply (shape_neg [(dec_nn m, m, 60, "m"); (padnn 2 s, s, 1, "s")]); [goods|]. cbn [acc_of]. unwrap. lia. }
    destruct (Z.eqb_spec u3 0) as [Z3|Z3].
    { cbn [Z.eqb negb]. replace (h * -1 =? 0) with false by (symmetry; apply Z.eqb_neq; lia). cbn [negb].
      rewrite dec_lead_neg by lia. rewrite !padz_nonneg by lia.
      apply (shape_neg [(dec_nn h, h, 3600, "h"); (padnn 2 m, m, 60, "m"); (padnn 2 s, s, 1, "s")]); [goods|].
      cbn [acc_of]. unwrap. lia. }
    replace (u3 * -1 =? 0) with false by (symmetry; apply Z.eqb_neq; lia). cbn [negb].
    rewrite dec_lead_neg by lia. rewrite !padz_nonneg by lia.
    apply (shape_neg [(dec_nn u3, u3, 86400, "d"); (padnn 2 h, h, 3600, "h"); (padnn 2 m, m, 60, "m"); (padnn 2 s, s, 1, "s")]); [goods|].
    cbn [acc_of]. unwrap. lia.
  - assert (En : n = u) by (unfold u; lia). clearbody u.
    destruct (Z.eqb_spec u1 0) as [Z1|Z1].
    { cbn [Z.eqb negb]. rewrite dec_lead_pos by lia.
      apply (shape_pos [(dec_nn s, s, 1, "s")]); [goods|discriminate|]. cbn [acc_of]. unwrap. lia. }
    destruct (Z.eqb_spec u2 0) as [Z2|Z2].
    { cbn [Z.eqb negb]. replace (m * 1 =? 0) with false by (symmetry; apply Z.eqb_neq; lia). cbn [negb].
      rewrite dec_lead_pos by lia. rewrite padz_nonneg by lia.
      apply (shape_pos [(dec_nn m, m, 60, "m"); (padnn 2 s, s, 1, "s")]); [goods|discriminate|]. cbn [acc_of]. unwrap. lia. }
    destruct (Z.eqb_spec u3 0) as [Z3|Z3].
    { cbn [Z.eqb negb]. replace (h * 1 =? 0) with false by (symmetry; apply Z.eqb_neq; lia). cbn [negb].
      rewrite dec_lead_pos by lia. rewrite !padz_nonneg by lia.
      apply (shape_pos [(dec_nn h, h, 3600, "h"); (padnn 2 m, m, 60, "m"); (padnn 2 s, s, 1, "s")]); [goods|discriminate|].
      cbn [acc_of]. unwrap. lia. }
    replace (u3 * 1 =? 0) with false by (symmetry; apply Z.eqb_neq; lia). cbn [negb].
    rewrite dec_lead_pos by lia. rewrite !padz_nonneg by lia.
    apply (shape_pos [(dec_nn u3, u3, 86400, "d"); (padnn 2 h, h, 3600, "h"); (padnn 2 m, m, 60, "m"); (padnn 2 s, s, 1, "s")]); [goods|discriminate|].
    cbn [acc_of]. unwrap. lia.
Qed.

(* ---- sec2hms / hms2sec *)
Lemma scan3_text Th Tm Ts h m s rest0 :
  numtext Th h -> numtext Tm m -> numtext Ts s -> in64 h = true -> in64 m = true -> in64 s = true -> rest0 = [] ->
  scan3 (Th ++ ":" :: Tm ++ ":" :: Ts ++ rest0) = Some (h, m, s).
Proof.
  intros Hh Hm Hs Ih Im Is ->. rewrite app_nil_r. unfold scan3.
  rewrite (scan_int_numtext _ _ ":" _ Hh Ih eq_refl). eval_eqb. cbv beta iota.
  rewrite (scan_int_numtext _ _ ":" _ Hm Im eq_refl). eval_eqb. cbv beta iota.
  rewrite (scan_int_numtext_end _ _ Hs Is). reflexivity.
Qed.

Lemma split_hms u :
  0 <= u <= MAX64 ->
  let '(d, h, m, s) := split_dhms u in
  wrap64 (h + wrap64 (d * 24)) = u / 3600 /\ m = (u / 60) mod 60 /\ s = u mod 60.
Proof.
  intros Hu. assert (Hr : MIN64 <= u <= MAX64 + 1) by (unfold MIN64, MAX64 in *; lia).
  rewrite (split_dhms_spec u Hr). cbv zeta. rewrite Z.abs_eq by lia.
  destruct (Z.ltb_spec u 0); [lia|].
  destruct (Z.eqb_spec (u / 60) 0) as [Z1|Z1].
  { rewrite !Z.mul_0_l, (wrap64_id 0), Z.add_0_l, (wrap64_id 0) by (unfold MIN64, MAX64; lia).
    rewrite Z.mul_1_r. unfold MAX64 in *. repeat split; Z.div_mod_to_equations; lia. }
  destruct (Z.eqb_spec (u / 60 / 60) 0) as [Z2|Z2].
  { rewrite !Z.mul_0_l, (wrap64_id 0), Z.add_0_l, (wrap64_id 0) by (unfold MIN64, MAX64; lia).
    rewrite Z.mul_1_r. unfold MAX64 in *. repeat split; Z.div_mod_to_equations; lia. }
  destruct (Z.eqb_spec (u / 60 / 60 / 24) 0) as [Z3|Z3].
  { rewrite !Z.mul_0_l, (wrap64_id 0), Z.add_0_r, Z.mul_1_r by (unfold MIN64, MAX64; lia).
    rewrite wrap64_id by (unfold MIN64, MAX64 in *; Z.div_mod_to_equations; lia).
    unfold MAX64 in *. repeat split; Z.div_mod_to_equations; lia. }
  rewrite Z.mul_1_r.
  rewrite (wrap64_id (u / 60 / 60 / 24 * 24)) by (unfold MIN64, MAX64 in *; Z.div_mod_to_equations; lia).
  rewrite wrap64_id by (unfold MIN64, MAX64 in *; Z.div_mod_to_equations; lia).
  unfold MAX64 in *. repeat split; Z.div_mod_to_equations; lia.
Qed.

Lemma hms_total_small u :
  0 <= u <= MAX64 -> hms_total (u / 3600) ((u / 60) mod 60) (u mod 60) = u.
Proof.
  intros Hu. unfold hms_total.
  assert (0 <= u / 3600 /\ u / 3600 * 3600 <= u) by (Z.div_mod_to_equations; lia).
  assert (0 <= (u / 60) mod 60 < 60) by (apply Z.mod_pos_bound; lia).
  assert (0 <= u mod 60 < 60) by (apply Z.mod_pos_bound; lia).
  assert (E : u mod 60 + ((u / 60) mod 60 * 60 + u / 3600 * 60 * 60) = u) by (Z.div_mod_to_equations; lia).
  unfold MAX64 in *. unwrap. exact E.
Qed.

Theorem hms_roundtrip n : MIN64 <= n <= MAX64 -> hms2sec (sec2hms n) = Some n.
Proof.
  intros Hn0. destruct (Z.eq_dec n MIN64) as [->|Hne]; [exact (proj2 dhms_roundtrip_minint64)|].
  assert (Hn : MIN64 < n <= MAX64) by lia.
  unfold sec2hms.
  set (u := Z.abs n).
  assert (Hu : 0 <= u <= MAX64 /\ u = Z.abs n).
  { unfold u. unfold MIN64, MAX64 in *; lia. }
  destruct Hu as [Hu Eu]. clearbody u.
  pose proof (split_hms u Hu) as Hs. destruct (split_dhms u) as [[[d h] m] s]. destruct Hs as (Eh & Em & Es).
  rewrite Eh. subst m s.
  assert (Rh : 0 <= u / 3600 <= MAX64) by (unfold MAX64 in *; Z.div_mod_to_equations; lia).
  assert (Rm : 0 <= (u / 60) mod 60 < 60) by (apply Z.mod_pos_bound; lia).
  assert (Rs : 0 <= u mod 60 < 60) by (apply Z.mod_pos_bound; lia).
  rewrite !padz_nonneg by lia.
  assert (N1 : numtext (padnn 2 (u / 3600)) (u / 3600)) by (apply numtext_padnn; lia).
  assert (N2 : numtext (padnn 2 ((u / 60) mod 60)) ((u / 60) mod 60)) by (apply numtext_padnn; unfold MAX64; lia).
  assert (N3 : numtext (padnn 2 (u mod 60)) (u mod 60)) by (apply numtext_padnn; unfold MAX64; lia).
  assert (I1 : in64 (u / 3600) = true) by (apply in64_range; unfold MIN64, MAX64 in *; lia).
  assert (I2 : in64 ((u / 60) mod 60) = true) by (apply in64_range; unfold MIN64, MAX64; lia).
  assert (I3 : in64 (u mod 60) = true) by (apply in64_range; unfold MIN64, MAX64; lia).
  pose proof (scan3_text _ _ _ _ _ _ [] N1 N2 N3 I1 I2 I3 eq_refl) as S3. rewrite app_nil_r in S3.
  destruct (Z.ltb_spec n 0) as [Hneg|Hpos].
  - cbn [app]. unfold hms2sec. eval_eqb. cbv beta iota. rewrite S3. rewrite hms_total_small by lia.
    rewrite wrap64_id by (unfold MIN64, MAX64 in *; lia). f_equal. lia.
  - cbn [app]. destruct (numtext_head _ _ N1) as (c & t' & Et & Hc). destruct (digit_not_sign c Hc) as [E1 _].
    unfold hms2sec. rewrite Et in *. cbn [app] in *. rewrite E1. rewrite S3. rewrite hms_total_small by lia. f_equal. lia.
Qed.
