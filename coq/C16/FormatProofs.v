(* C16: the general format law.  For EVERY format of the numeric-code language (Format.v) that determines the
   instant, strptime inverts strftime on every instant of the years 1..9999: a small inverse theory of
   "sequence of fixed-width numeric fields and literals" against the pbnjay parts loop + time.Parse field rules. *)
From Miller Require Import Base.Bytes C16.Model C16.Format C16.CivilProofs C16.TextProofs C16.Proofs.
Open Scope char_scope.
Open Scope Z_scope.

Ltac eval_eqb :=
  repeat match goal with
         | |- context [Ascii.eqb ?a ?b] =>
             let r := eval vm_compute in (Ascii.eqb a b) in change (Ascii.eqb a b) with r
         end.

(* ------------------------------------------------------------------ codes *)
Lemma code_width_cases c w : code_width c = Some w ->
  (c = "Y" /\ w = 4%nat) \/ (c = "j" /\ w = 3%nat) \/ ((c = "m" \/ c = "d" \/ c = "H" \/ c = "M" \/ c = "S") /\ w = 2%nat).
Proof.
  unfold code_width.
  destruct (Ascii.eqb_spec c "Y") as [->|]; [intros [= <-]; auto|].
  destruct (Ascii.eqb_spec c "j") as [->|]; [intros [= <-]; auto|].
  destruct (Ascii.eqb_spec c "m") as [->|]; [intros [= <-]; auto 10|].
  destruct (Ascii.eqb_spec c "d") as [->|]; [intros [= <-]; auto 10|].
  destruct (Ascii.eqb_spec c "H") as [->|]; [intros [= <-]; auto 10|].
  destruct (Ascii.eqb_spec c "M") as [->|]; [intros [= <-]; auto 10|].
  destruct (Ascii.eqb_spec c "S") as [->|]; [intros [= <-]; auto 10|].
  cbn [orb]. discriminate.
Qed.

Lemma frac_code_cases c : is_frac_code c = true ->
  c = "1" \/ c = "2" \/ c = "3" \/ c = "4" \/ c = "5" \/ c = "6" \/ c = "7" \/ c = "8" \/ c = "9".
Proof. destruct c as [[] [] [] [] [] [] [] []]; cbn; intros H; try discriminate H; auto 10. Qed.

Lemma frac_code_k c : is_frac_code c = true -> 1 <= dval c <= 9.
Proof. intros H. destruct (frac_code_cases c H) as [->|[->|[->|[->|[->|[->|[->|[->| ->]]]]]]]]; vm_compute; split; discriminate. Qed.

Lemma frac_code_not_width c : is_frac_code c = true -> code_width c = None.
Proof. intros H. destruct (frac_code_cases c H) as [->|[->|[->|[->|[->|[->|[->|[->| ->]]]]]]]]; reflexivity. Qed.

Lemma width_not_frac c w : code_width c = Some w -> is_frac_code c = false.
Proof. intros H. destruct (is_frac_code c) eqn:E; [|reflexivity]. rewrite (frac_code_not_width c E) in H. discriminate. Qed.

(* ------------------------------------------------------------------ broken-down times of the years 1..9999 *)
Record good_tm (x : tm) : Prop := {
  g_y : 1 <= tm_y x <= 9999;
  g_v : valid_date (tm_y x) (tm_mo x) (tm_d x) = true;
  g_h : 0 <= tm_h x < 24;
  g_mi : 0 <= tm_mi x < 60;
  g_s : 0 <= tm_s x < 60 }.

Lemma good_tm_of_sec t : LO <= t <= HI -> good_tm (tm_of_sec t).
Proof.
  intros Ht. pose proof (tm_year_range t Ht). pose proof (tm_of_sec_fields t) as F. cbv zeta in F.
  destruct F as (F1 & F2 & F3 & F4). constructor; assumption.
Qed.

Lemma valid_date_bounds y m d : valid_date y m d = true -> 1 <= m <= 12 /\ 1 <= d <= days_in_month y m /\ d <= 31.
Proof.
  intros Hv. unfold valid_date in Hv. repeat (apply andb_true_iff in Hv; destruct Hv as [Hv ?]).
  repeat match goal with H : (_ <=? _) = true |- _ => apply Z.leb_le in H end.
  split; [lia|]. split; [lia|]. unfold days_in_month in *.
  destruct (m =? 2); [destruct (is_leap y); lia|]. destruct ((m =? 4) || (m =? 6) || (m =? 9) || (m =? 11)); lia.
Qed.

Lemma yday_range y m d : valid_date y m d = true -> 1 <= yday y m d <= (if is_leap y then 366 else 365).
Proof.
  intros Hv. destruct (valid_date_bounds y m d Hv) as (Hm & Hd & _).
  pose proof (month_length y) as M.
  pose proof (M 1 ltac:(lia)) as M1. pose proof (M 2 ltac:(lia)) as M2. pose proof (M 3 ltac:(lia)) as M3.
  pose proof (M 4 ltac:(lia)) as M4. pose proof (M 5 ltac:(lia)) as M5. pose proof (M 6 ltac:(lia)) as M6.
  pose proof (M 7 ltac:(lia)) as M7. pose proof (M 8 ltac:(lia)) as M8. pose proof (M 9 ltac:(lia)) as M9.
  pose proof (M 10 ltac:(lia)) as M10. pose proof (M 11 ltac:(lia)) as M11. pose proof (M 12 ltac:(lia)) as M12.
  pose proof (year_length y) as YL.
  pose proof (days_of_civil_day y m 1 d) as D. unfold yday. clear M.
  assert (C : m = 1 \/ m = 2 \/ m = 3 \/ m = 4 \/ m = 5 \/ m = 6 \/ m = 7 \/ m = 8 \/ m = 9 \/ m = 10 \/ m = 11 \/ m = 12) by lia.
  cbn [Z.eqb Pos.eqb Z.add Pos.add Pos.succ] in *. unfold days_in_month in *. cbn [Z.eqb Pos.eqb orb] in *.
  destruct C as [->|[->|[->|[->|[->|[->|[->|[->|[->|[->|[->| ->]]]]]]]]]]];
    cbn [Z.eqb Pos.eqb orb] in *; destruct (is_leap y); lia.
Qed.

(* ------------------------------------------------------------------ what strftime prints per code *)
Definition fval (c : ascii) (x : tm) : Z :=
  if Ascii.eqb c "Y" then tm_y x else if Ascii.eqb c "m" then tm_mo x else if Ascii.eqb c "d" then tm_d x
  else if Ascii.eqb c "H" then tm_h x else if Ascii.eqb c "M" then tm_mi x else if Ascii.eqb c "S" then tm_s x
  else yday (tm_y x) (tm_mo x) (tm_d x).
Definition fwidth (c : ascii) : nat := match code_width c with Some w => w | None => 2%nat end.
Definition frac_k (c : ascii) : nat := Z.to_nat (dval c).
Definition field (c : ascii) (x : tm) (ns : Z) : bytes :=
  if is_frac_code c then digs 2 (tm_s x) ++ "." :: digs (frac_k c) (ns / pow10 (9 - frac_k c))
  else digs (fwidth c) (fval c x).
Fixpoint render (ps : list part) (x : tm) (ns : Z) : bytes :=
  match ps with [] => [] | (c, l) :: r => field c x ns ++ l ++ render r x ns end.

Lemma fval_range c w x : good_tm x -> code_width c = Some w -> 0 <= fval c x < 10 ^ Z.of_nat w /\ (1 <= w)%nat.
Proof.
  intros G Hw. destruct G as [Gy Gv Gh Gmi Gs]. destruct (valid_date_bounds _ _ _ Gv) as (Hm & Hd & Hd31).
  assert (Hj : 1 <= yday (tm_y x) (tm_mo x) (tm_d x) <= 366) by (pose proof (yday_range _ _ _ Gv) as Hj; destruct (is_leap (tm_y x)); lia).
  destruct (code_width_cases c w Hw) as [[-> ->]|[[-> ->]|[[->|[->|[->|[->| ->]]]] ->]]]; unfold fval; eval_eqb; cbv iota;
    try change (10 ^ Z.of_nat 4) with 10000; try change (10 ^ Z.of_nat 3) with 1000; try change (10 ^ Z.of_nat 2) with 100;
    lia.
Qed.

Lemma pow10_pos n : 0 < pow10 n.
Proof. unfold pow10. apply Z.pow_pos_nonneg; lia. Qed.

Lemma frac_value_range k ns : (k <= 9)%nat -> 0 <= ns < 1000000000 -> 0 <= ns / pow10 (9 - k) < 10 ^ Z.of_nat k.
Proof.
  intros Hk Hns. pose proof (pow10_pos (9 - k)) as P. split; [apply Z.div_pos; lia|].
  apply Z.div_lt_upper_bound; [lia|].
  assert (E : pow10 (9 - k) * 10 ^ Z.of_nat k = 1000000000).
  { unfold pow10. rewrite <- Z.pow_add_r by lia. replace (Z.of_nat (9 - k) + Z.of_nat k) with 9 by lia. reflexivity. }
  lia.
Qed.

Lemma strftime_verb_field c x t ns :
  x = tm_of_sec t -> good_tm x -> 0 <= ns < 1000000000 -> num_code c = true ->
  strftime_verb c t ns = Some (field c x ns).
Proof.
  intros Hx G Hns Hc. unfold strftime_verb. cbv zeta. rewrite <- Hx. clear Hx.
  unfold num_code in Hc. unfold field.
  destruct (is_frac_code c) eqn:F.
  - pose proof (frac_code_k c F) as Hk. destruct G as [Gy Gv Gh Gmi Gs].
    assert (Hk9 : (frac_k c <= 9)%nat) by (unfold frac_k; lia).
    assert (Hk1 : (1 <= frac_k c)%nat) by (unfold frac_k; lia).
    pose proof (frac_value_range (frac_k c) ns Hk9 Hns) as Hv.
    transitivity (Some (frac_sec x ns (frac_k c) (frac_k c))).
    { unfold frac_k. destruct (frac_code_cases c F) as [->|[->|[->|[->|[->|[->|[->|[->| ->]]]]]]]]; reflexivity. }
    unfold frac_sec. rewrite padz_nonneg by lia.
    rewrite (padnn_small 2) by (try change (10 ^ Z.of_nat 2) with 100; lia).
    rewrite (padnn_small (frac_k c)) by (try exact Hv; lia). reflexivity.
  - cbn [orb] in Hc. destruct (code_width c) as [w|] eqn:Hw; [|discriminate].
    destruct (fval_range c w _ G Hw) as [Hr Hw1]. unfold fwidth. rewrite Hw. clear G.
    destruct (code_width_cases c w Hw) as [[-> ->]|[[-> ->]|[[->|[->|[->|[->| ->]]]] ->]]];
      unfold fval in *; repeat (simpl (Ascii.eqb _ _) in Hr); cbv iota in Hr; eval_eqb; cbv iota;
      rewrite padz_nonneg by lia; rewrite padnn_small by (try exact Hr; lia); reflexivity.
Qed.

(* ------------------------------------------------------------------ the %<k>S rewrite and strftime over a whole format *)
Fixpoint flat_raw (ps : list part) : bytes :=
  match ps with [] => [] | (c, l) :: r => "%" :: c :: l ++ flat_raw r end.

Lemma ext_rewrite_fuel_nil fuel : ext_rewrite_fuel fuel [] = [].
Proof. destruct fuel; reflexivity. Qed.

Lemma no_pct_cons c l : no_pct (c :: l) = true -> Ascii.eqb c "%" = false /\ no_pct l = true.
Proof. unfold no_pct. cbn [forallb]. intros H. apply andb_true_iff in H. destruct H as [H1 H2]. apply negb_true_iff in H1. auto. Qed.

Lemma rewrite_literal l : forall R fuel, no_pct l = true -> (List.length (l ++ R) <= fuel)%nat ->
  ext_rewrite_fuel fuel (l ++ R) = l ++ ext_rewrite_fuel (fuel - List.length l) R.
Proof.
  induction l as [|p l IH]; intros R fuel Hl Hf.
  - cbn [app List.length]. now rewrite Nat.sub_0_r.
  - destruct (no_pct_cons _ _ Hl) as [Hp Hl']. cbn [app List.length] in *.
    destruct fuel as [|k]; [lia|]. cbn [Nat.sub].
    destruct (l ++ R) as [|q t] eqn:E.
    + destruct l; [|discriminate E]. cbn [app] in E. subst R. cbn [ext_rewrite_fuel app List.length].
      now rewrite ext_rewrite_fuel_nil.
    + cbn [ext_rewrite_fuel]. rewrite Hp. rewrite <- E. rewrite IH by (try assumption; rewrite E; cbn [List.length] in *; lia).
      reflexivity.
Qed.

Lemma rewrite_parts ps : forall fuel, parts_ok ps = true -> (List.length (flat_print ps) <= fuel)%nat ->
  ext_rewrite_fuel fuel (flat_print ps) = flat_raw ps.
Proof.
  induction ps as [|[c l] r IH]; intros fuel Hok Hf.
  - apply ext_rewrite_fuel_nil.
  - cbn [parts_ok] in Hok. repeat (apply andb_true_iff in Hok; destruct Hok as [Hok ?]).
    cbn [flat_print flat_raw] in *. unfold num_code in Hok.
    destruct (is_frac_code c) eqn:F.
    + cbn [List.length] in Hf. destruct fuel as [|k]; [lia|]. cbn [ext_rewrite_fuel].
      assert (Ec : Ascii.eqb c "%" = false) by (destruct (frac_code_cases c F) as [->|[->|[->|[->|[->|[->|[->|[->| ->]]]]]]]]; reflexivity).
      change (Ascii.eqb "%" "%") with true. cbv iota. rewrite Ec.
      unfold is_frac_code in F. rewrite F. change (Ascii.eqb "S" "S") with true. cbn [andb].
      rewrite app_length in Hf. rewrite rewrite_literal by (try assumption; rewrite app_length; lia). rewrite IH by (try assumption; lia). reflexivity.
    + cbn [orb] in Hok. destruct (code_width c) as [w|] eqn:Hw; [|discriminate].
      assert (Ec : Ascii.eqb c "%" = false) by
        (destruct (code_width_cases c w Hw) as [[-> _]|[[-> _]|[[->|[->|[->|[->| ->]]]] _]]]; reflexivity).
      cbn [List.length] in Hf. rewrite app_length in Hf. destruct fuel as [|k]; [lia|]. cbn [ext_rewrite_fuel].
      change (Ascii.eqb "%" "%") with true. cbv iota. rewrite Ec.
      destruct (l ++ flat_print r) as [|s t'] eqn:E.
      * destruct l; [|discriminate E]. cbn [app] in E. destruct r as [|[c2 l2] r2]; [reflexivity|].
        cbn [flat_print] in E. destruct (is_frac_code c2); discriminate E.
      * unfold is_frac_code in F. rewrite F. cbn [andb]. rewrite <- E.
        change (c :: l ++ flat_print r) with ((c :: l) ++ flat_print r).
        rewrite rewrite_literal.
        -- cbn [app List.length]. f_equal. f_equal. f_equal. apply IH; [assumption|]. cbn [Nat.sub]. lia.
        -- unfold no_pct. cbn [forallb]. rewrite Ec. cbn [negb andb]. assumption.
        -- cbn [app List.length]. rewrite app_length. lia.
Qed.

Lemma strftime_go_literal l R t ns : no_pct l = true ->
  strftime_go (l ++ R) t ns = match strftime_go R t ns with Some b => Some (l ++ b) | None => None end.
Proof.
  intros Hl. induction l as [|c l IH]; cbn [app].
  - destruct (strftime_go R t ns); reflexivity.
  - destruct (no_pct_cons _ _ Hl) as [Hc Hl']. cbn [strftime_go]. rewrite Hc. rewrite (IH Hl').
    destruct (strftime_go R t ns); reflexivity.
Qed.

Lemma strftime_go_parts ps x t ns :
  x = tm_of_sec t -> good_tm x -> 0 <= ns < 1000000000 -> parts_ok ps = true ->
  strftime_go (flat_raw ps) t ns = Some (render ps x ns).
Proof.
  intros Hx G Hns. induction ps as [|[c l] r IH]; intros Hok; [reflexivity|].
  cbn [parts_ok] in Hok. repeat (apply andb_true_iff in Hok; destruct Hok as [Hok ?]).
  cbn [flat_raw render strftime_go]. change (Ascii.eqb "%" "%") with true. cbv iota.
  rewrite (strftime_verb_field c x t ns Hx G Hns Hok).
  rewrite strftime_go_literal by assumption. rewrite IH by assumption. reflexivity.
Qed.

Theorem strftime_format pre ps t ns :
  no_pct pre = true -> parts_ok ps = true -> LO <= t <= HI -> 0 <= ns < 1000000000 ->
  strftime (pre ++ flat_print ps) t ns = Some (pre ++ render ps (tm_of_sec t) ns).
Proof.
  intros Hpre Hok Ht Hns. unfold strftime, ext_rewrite.
  rewrite rewrite_literal by (try assumption; lia).
  rewrite rewrite_parts by (try assumption; rewrite app_length; lia).
  rewrite strftime_go_literal by assumption.
  rewrite (strftime_go_parts ps (tm_of_sec t) t ns eq_refl (good_tm_of_sec t Ht) Hns Hok). reflexivity.
Qed.

(* ------------------------------------------------------------------ strptime: splitting the format *)
Definition pparts (ps : list part) : list part := map (fun p => (parse_code (fst p), snd p)) ps.

Lemma flat_parse_head ps : flat_parse ps = [] \/ exists t, flat_parse ps = "%" :: t.
Proof. destruct ps as [|[c l] r]; [now left|right]. cbn [flat_parse]. eexists. reflexivity. Qed.

Lemma lit_until_pct_app l R : no_pct l = true -> (R = [] \/ exists t, R = "%" :: t) -> lit_until_pct (l ++ R) = (l, R).
Proof.
  intros Hl HR. induction l as [|c l IH]; cbn [app].
  - destruct HR as [->|[t ->]]; reflexivity.
  - destruct (no_pct_cons _ _ Hl) as [Hc Hl']. cbn [lit_until_pct]. rewrite Hc. rewrite (IH Hl'). reflexivity.
Qed.

Fixpoint lits_no_pct (ps : list part) : bool := match ps with [] => true | (_, l) :: r => no_pct l && lits_no_pct r end.

Lemma parts_ok_lits ps : parts_ok ps = true -> lits_no_pct ps = true.
Proof.
  induction ps as [|[c l] r IH]; [reflexivity|]. cbn [parts_ok lits_no_pct]. intros H.
  repeat (apply andb_true_iff in H; destruct H as [H ?]). apply andb_true_iff. auto.
Qed.

Lemma fmt_parts_flat ps : forall fuel, (List.length ps < fuel)%nat -> lits_no_pct ps = true ->
  fmt_parts fuel (flat_parse ps) = Some (pparts ps).
Proof.
  induction ps as [|[c l] r IH]; intros fuel Hf Hl.
  - destruct fuel; [cbn in Hf; lia|reflexivity].
  - cbn [lits_no_pct] in Hl. apply andb_true_iff in Hl. destruct Hl as [Hl Hr].
    destruct fuel as [|fu]; [cbn in Hf; lia|]. cbn [List.length] in Hf.
    cbn [flat_parse fmt_parts]. change (Ascii.eqb "%" "%") with true. cbv iota.
    rewrite (lit_until_pct_app l (flat_parse r) Hl (flat_parse_head r)).
    rewrite (IH fu ltac:(lia) Hr). reflexivity.
Qed.

Lemma flat_parse_length ps : (List.length ps <= List.length (flat_parse ps))%nat.
Proof. induction ps as [|[c l] r IH]; [cbn; lia|]. cbn [flat_parse List.length]. rewrite app_length. lia. Qed.

Lemma num_code_width c : num_code c = true -> exists w, code_width (parse_code c) = Some w.
Proof.
  unfold num_code, parse_code. destruct (is_frac_code c); [intros _; exists 2%nat; reflexivity|].
  cbn [orb]. destruct (code_width c) as [w|]; [intros _; now exists w|discriminate].
Qed.

Lemma width_known c w : code_width c = Some w -> strp_known c = true.
Proof. intros H. destruct (code_width_cases c w H) as [[-> _]|[[-> _]|[[->|[->|[->|[->| ->]]]] _]]]; reflexivity. Qed.

Lemma pparts_known ps : parts_ok ps = true -> existsb (fun p => negb (strp_known (fst p))) (pparts ps) = false.
Proof.
  induction ps as [|[c l] r IH]; [reflexivity|]. cbn [parts_ok]. intros H.
  repeat (apply andb_true_iff in H; destruct H as [H ?]).
  cbn [pparts map existsb fst]. destruct (num_code_width c H) as [w Hw]. rewrite (width_known _ _ Hw). cbn [negb orb]. now apply IH.
Qed.

Lemma pparts_in_model ps : parts_ok ps = true -> parts_in_model (pparts ps) = true.
Proof.
  induction ps as [|[c l] r IH]; [reflexivity|]. cbn [parts_ok]. intros H.
  repeat (apply andb_true_iff in H; destruct H as [H ?]).
  destruct (num_code_width c H) as [w Hw].
  destruct r as [|p2 r2].
  - cbn [pparts map parts_in_model fst snd]. rewrite Hw. assumption.
  - change (pparts ((c, l) :: p2 :: r2)) with ((parse_code c, l) :: pparts (p2 :: r2)).
    destruct l as [|l0 lt]; [discriminate|].
    specialize (IH ltac:(assumption)). destruct (pparts (p2 :: r2)) as [|q qs] eqn:E; [discriminate E|].
    cbn [parts_in_model]. rewrite Hw. apply andb_true_iff. split; assumption.
Qed.

(* ------------------------------------------------------------------ strptime: one field *)
Lemma firstn_len_app {A} (a b : list A) n : List.length a = n -> firstn n (a ++ b) = a.
Proof. intros <-. rewrite firstn_app, Nat.sub_diag, firstn_all. cbn [firstn]. apply app_nil_r. Qed.
Lemma skipn_len_app {A} (a b : list A) n : List.length a = n -> skipn n (a ++ b) = b.
Proof. intros <-. apply skipn_app_length. Qed.

Lemma parse_digits_digs w v : (1 <= w)%nat -> 0 <= v < 10 ^ Z.of_nat w -> parse_digits (digs w v) = Some v.
Proof.
  intros Hw Hv. unfold parse_digits. rewrite digs_digits, parse_digs by exact Hv.
  destruct (digs w v) eqn:E; [|reflexivity].
  apply (f_equal (@List.length ascii)) in E. rewrite digs_length in E. cbn [List.length] in E. lia.
Qed.

Lemma set_field_digs c w v acc :
  (1 <= w)%nat -> 0 <= v < 10 ^ Z.of_nat w -> set_field c (digs w v) w acc = upd c v 0 acc.
Proof.
  intros Hw Hv. unfold set_field, zero_pad_left. rewrite digs_length, Nat.leb_refl.
  rewrite firstn_all2 by (rewrite digs_length; lia). rewrite skipn_all2 by (rewrite digs_length; lia).
  rewrite digs_length, Nat.eqb_refl. cbn [negb]. rewrite parse_digits_digs by assumption.
  destruct (Ascii.eqb c "S"); reflexivity.
Qed.

Lemma set_field_frac s k v acc :
  0 <= s < 100 -> (1 <= k <= 9)%nat -> 0 <= v < 10 ^ Z.of_nat k ->
  set_field "S" (digs 2 s ++ "." :: digs k v) 2 acc = upd "S" s (v * pow10 (9 - k)) acc.
Proof.
  intros Hs Hk Hv. unfold set_field, zero_pad_left.
  assert (L : List.length (digs 2 s ++ "." :: digs k v) = (3 + k)%nat) by (rewrite app_length; cbn [List.length]; rewrite !digs_length; lia).
  rewrite L. replace (Nat.leb 2 (3 + k)) with true by (symmetry; apply Nat.leb_le; lia).
  rewrite (firstn_len_app _ _ 2) by apply digs_length. rewrite (skipn_len_app _ _ 2) by apply digs_length.
  rewrite digs_length. cbn [Nat.eqb negb]. rewrite parse_digits_digs by (try change (10 ^ Z.of_nat 2) with 100; lia).
  change (Ascii.eqb "S" "S") with true. cbv iota.
  unfold parse_frac. change (Ascii.eqb "." ".") with true. cbn [orb]. cbv iota.
  destruct (digs k v) as [|d0 dt] eqn:E.
  { apply (f_equal (@List.length ascii)) in E. rewrite digs_length in E. cbn [List.length] in E. lia. }
  rewrite <- E. rewrite digs_digits. rewrite firstn_all2 by (rewrite digs_length; lia).
  rewrite digs_length. rewrite parse_digs by exact Hv. reflexivity.
Qed.

(* ------------------------------------------------------------------ the accumulated broken-down time *)
Definition mem (c : ascii) (seen : list ascii) : bool := existsb (Ascii.eqb c) seen.
Definition acc_of (seen : list ascii) (x : tm) (nsv : Z) : ptm :=
  {| p_y := if mem "Y" seen then Some (tm_y x) else None;
     p_mo := if mem "m" seen then Some (tm_mo x) else None;
     p_d := if mem "d" seen then Some (tm_d x) else None;
     p_h := if mem "H" seen then tm_h x else 0;
     p_mi := if mem "M" seen then tm_mi x else 0;
     p_s := if mem "S" seen then tm_s x else 0;
     p_ns := nsv;
     p_j := if mem "j" seen then Some (yday (tm_y x) (tm_mo x) (tm_d x)) else None |}.

Lemma upd_acc pc w x seen nsv nsv' : good_tm x -> code_width pc = Some w ->
  upd pc (fval pc x) nsv' (acc_of seen x nsv) = Some (acc_of (pc :: seen) x (if Ascii.eqb pc "S" then nsv' else nsv)).
Proof.
  intros G Hw. destruct G as [Gy Gv Gh Gmi Gs]. destruct (valid_date_bounds _ _ _ Gv) as (Hm & Hd & Hd31).
  destruct (code_width_cases pc w Hw) as [[-> ->]|[[-> ->]|[[->|[->|[->|[->| ->]]]] ->]]];
    unfold upd, fval; eval_eqb; cbv iota;
    try (replace ((1 <=? tm_mo x) && (tm_mo x <=? 12)) with true by (symmetry; apply andb_true_iff; split; apply Z.leb_le; lia));
    try (replace (tm_h x <? 24) with true by (symmetry; apply Z.ltb_lt; lia));
    try (replace (tm_mi x <? 60) with true by (symmetry; apply Z.ltb_lt; lia));
    try (replace (tm_s x <? 60) with true by (symmetry; apply Z.ltb_lt; lia));
    unfold acc_of, mem; cbn [existsb p_y p_mo p_d p_h p_mi p_s p_ns p_j]; eval_eqb; cbn [orb]; reflexivity.
Qed.

(* ------------------------------------------------------------------ strptime: the parts loop on rendered text *)
Lemma find_sub_nohead l0 lt comp rest :
  forallb (fun c => negb (Ascii.eqb l0 c)) comp = true ->
  find_sub (l0 :: lt) (comp ++ (l0 :: lt) ++ rest) = Some (comp, rest).
Proof.
  intros Hd. change ((l0 :: lt) ++ rest) with (l0 :: lt ++ rest). induction comp as [|c comp IH].
  - cbn [app]. cbn [find_sub].
    change (l0 :: lt ++ rest) with ((l0 :: lt) ++ rest). rewrite prefixb_app.
    now rewrite skipn_app_length.
  - cbn [forallb] in Hd. apply andb_true_iff in Hd. destruct Hd as [Hc Hd]. apply negb_true_iff in Hc.
    cbn [app]. cbn [find_sub prefixb]. rewrite Hc. cbn [andb].
    rewrite (IH Hd). reflexivity.
Qed.

Lemma forallb_imp {A} (f g : A -> bool) l : (forall a, f a = true -> g a = true) -> forallb f l = true -> forallb g l = true.
Proof.
  intros H. induction l as [|a l IH]; [reflexivity|]. cbn [forallb]. intros H2. apply andb_true_iff in H2. destruct H2 as [H2 H3].
  apply andb_true_iff. split; [now apply H | now apply IH].
Qed.

Definition field_char (ch : ascii) : bool := is_digit ch || Ascii.eqb ch ".".
Lemma field_chars c x ns : forallb field_char (field c x ns) = true.
Proof.
  unfold field. destruct (is_frac_code c).
  - rewrite forallb_app. cbn [forallb]. apply andb_true_iff. split.
    + eapply forallb_imp; [|apply digs_digits]. intros a H. unfold field_char. now rewrite H.
    + apply andb_true_iff. split; [reflexivity|]. eapply forallb_imp; [|apply digs_digits]. intros a H. unfold field_char. now rewrite H.
  - eapply forallb_imp; [|apply digs_digits]. intros a H. unfold field_char. now rewrite H.
Qed.

Lemma lit_head_not_in_field l0 lt c x ns :
  lit_ok (l0 :: lt) = true -> forallb (fun ch => negb (Ascii.eqb l0 ch)) (field c x ns) = true.
Proof.
  unfold lit_ok. intros H. apply andb_true_iff in H. destruct H as [H _]. unfold lit_head_ok in H.
  apply andb_true_iff in H. destruct H as [H H3]. apply andb_true_iff in H. destruct H as [H1 H2].
  apply negb_true_iff in H1, H2, H3. clear H3.
  eapply forallb_imp; [|apply field_chars]. intros a Ha. unfold field_char in Ha.
  destruct (Ascii.eqb_spec l0 a) as [->|]; [|reflexivity]. rewrite H1, H2 in Ha. discriminate.
Qed.

Definition part_ns (c : ascii) (ns nsv : Z) : Z :=
  if is_frac_code c then ns / pow10 (9 - frac_k c) * pow10 (9 - frac_k c) else if Ascii.eqb c "S" then 0 else nsv.
Fixpoint ns_after (ps : list part) (ns nsv : Z) : Z :=
  match ps with [] => nsv | (c, _) :: r => ns_after r ns (part_ns c ns nsv) end.
Fixpoint seen_after (ps : list part) (seen : list ascii) : list ascii :=
  match ps with [] => seen | (c, _) :: r => seen_after r (parse_code c :: seen) end.

(* the field text of one part is accepted by set_field and stores the right value *)
Lemma set_field_field c x ns seen nsv :
  good_tm x -> 0 <= ns < 1000000000 -> num_code c = true ->
  set_field (parse_code c) (field c x ns) (fwidth (parse_code c)) (acc_of seen x nsv)
  = Some (acc_of (parse_code c :: seen) x (part_ns c ns nsv)).
Proof.
  intros G Hns Hc. unfold field, parse_code, part_ns. destruct (is_frac_code c) eqn:F.
  - pose proof (frac_code_k c F) as Hk. pose proof G as [Gy Gv Gh Gmi Gs].
    assert (Hk9 : (1 <= frac_k c <= 9)%nat) by (unfold frac_k; lia).
    change (fwidth "S") with 2%nat.
    rewrite set_field_frac by (try apply frac_value_range; lia).
    change (tm_s x) with (fval "S" x) at 1. rewrite (upd_acc "S" 2 x seen nsv _ G eq_refl). reflexivity.
  - unfold num_code in Hc. rewrite F in Hc. cbn [orb] in Hc. destruct (code_width c) as [w|] eqn:Hw; [|discriminate].
    destruct (fval_range c w x G Hw) as [Hr Hw1]. unfold fwidth. rewrite Hw.
    rewrite set_field_digs by assumption. rewrite (upd_acc c w x seen nsv 0 G Hw).
    destruct (Ascii.eqb c "S"); reflexivity.
Qed.

Lemma count_digits_all ds : forallb is_digit ds = true -> count_digits ds = List.length ds.
Proof.
  induction ds as [|d ds IH]; [reflexivity|]. cbn [forallb count_digits List.length]. intros H.
  apply andb_true_iff in H. destruct H as [H1 H2]. rewrite H1. now rewrite IH.
Qed.

(* when the field is the whole remaining input (last part, no literal after it) the loop takes all of it *)
Lemma last_field_width c x ns :
  good_tm x -> 0 <= ns < 1000000000 -> num_code c = true ->
  let inp := field c x ns in
  let w := fwidth (parse_code c) in
  (if Ascii.eqb (parse_code c) "S" then (w + frac_len (skipn w inp))%nat else w) = List.length inp /\ inp <> [].
Proof.
  intros G Hns Hc. cbv zeta. unfold field, parse_code. destruct (is_frac_code c) eqn:F.
  - pose proof (frac_code_k c F) as Hk. change (fwidth "S") with 2%nat. change (Ascii.eqb "S" "S") with true. cbv iota.
    rewrite (skipn_len_app _ _ 2) by apply digs_length. unfold frac_len. change (Ascii.eqb "." ".") with true. cbn [orb]. cbv iota.
    rewrite count_digits_all by apply digs_digits. rewrite digs_length.
    assert (Hk1 : (1 <= frac_k c)%nat) by (unfold frac_k; lia).
    split.
    + destruct (frac_k c) as [|k'] eqn:E; [lia|]. rewrite app_length. cbn [List.length]. rewrite !digs_length. lia.
    + intros E. apply (f_equal (@List.length ascii)) in E. rewrite app_length in E. cbn [List.length] in E. lia.
  - unfold num_code in Hc. rewrite F in Hc. cbn [orb] in Hc. destruct (code_width c) as [w|] eqn:Hw; [|discriminate].
    destruct (fval_range c w x G Hw) as [Hr Hw1]. unfold fwidth. rewrite Hw. rewrite digs_length.
    split.
    + destruct (Ascii.eqb c "S"); [|reflexivity]. rewrite skipn_all2 by (rewrite digs_length; lia). cbn [frac_len]. lia.
    + intros E. apply (f_equal (@List.length ascii)) in E. rewrite digs_length in E. cbn [List.length] in E. lia.
Qed.

Lemma parse_render ps : forall x ns seen nsv, good_tm x -> 0 <= ns < 1000000000 -> parts_ok ps = true ->
  parse_parts (pparts ps) (render ps x ns) (acc_of seen x nsv)
  = Some (Some (acc_of (seen_after ps seen) x (ns_after ps ns nsv))).
Proof.
  induction ps as [|[c l] r IH]; intros x ns seen nsv G Hns Hok; [reflexivity|].
  cbn [parts_ok] in Hok. repeat (apply andb_true_iff in Hok; destruct Hok as [Hok ?]).
  destruct (num_code_width c Hok) as [w Hw].
  assert (Ew : fwidth (parse_code c) = w) by (unfold fwidth; now rewrite Hw).
  pose proof (set_field_field c x ns seen nsv G Hns Hok) as SF. rewrite Ew in SF.
  cbn [pparts map fst snd render seen_after ns_after]. fold (pparts r). cbn [parse_parts]. rewrite Hw.
  destruct l as [|l0 lt].
  - (* last part, no literal *)
    destruct r as [|p2 r2]; [|discriminate].
    cbn [render app]. rewrite app_nil_r.
    destruct (last_field_width c x ns G Hns Hok) as [LW NE]. cbv zeta in LW. rewrite Ew in LW.
    destruct (field c x ns) as [|f0 ft] eqn:EF; [congruence|]. rewrite <- EF in *.
    rewrite LW. rewrite firstn_all, skipn_all. rewrite SF. reflexivity.
  - rewrite (find_sub_nohead l0 lt (field c x ns) (render r x ns)) by (eapply lit_head_not_in_field; eassumption).
    rewrite SF. apply IH; assumption.
Qed.

(* ------------------------------------------------------------------ time.Parse's final assembly *)
Lemma eqb_sym_ascii a b : Ascii.eqb a b = Ascii.eqb b a.
Proof. destruct (Ascii.eqb_spec a b) as [->|N]; [now rewrite Ascii.eqb_refl|]. destruct (Ascii.eqb_spec b a) as [->|]; [congruence|reflexivity]. Qed.

Lemma mem_seen_after ps : forall seen c, mem c (seen_after ps seen) = has c ps || mem c seen.
Proof.
  induction ps as [|[c0 l] r IH]; intros seen c; [reflexivity|].
  cbn [seen_after]. rewrite IH. unfold has, mem. cbn [existsb fst]. rewrite (eqb_sym_ascii c (parse_code c0)).
  destruct (Ascii.eqb (parse_code c0) c), (existsb (fun p => Ascii.eqb (parse_code (fst p)) c) r), (existsb (Ascii.eqb c) seen); reflexivity.
Qed.

Lemma trunc_ns_0 ns : 0 <= ns < 1000000000 -> trunc_ns 0 ns = 0.
Proof. intros H. unfold trunc_ns. change (pow10 (9 - 0)) with 1000000000. rewrite Z.div_small by lia. reflexivity. Qed.

Lemma ns_after_trunc ps : forall ns k, 0 <= ns < 1000000000 ->
  ns_after ps ns (trunc_ns k ns) = trunc_ns (last_frac ps k) ns.
Proof.
  induction ps as [|[c l] r IH]; intros ns k Hns; [reflexivity|]. cbn [ns_after last_frac].
  unfold part_ns. destruct (is_frac_code c).
  - change (ns / pow10 (9 - frac_k c) * pow10 (9 - frac_k c)) with (trunc_ns (frac_k c) ns). now apply IH.
  - destruct (Ascii.eqb c "S"); [|now apply IH]. rewrite <- (trunc_ns_0 ns Hns). now apply IH.
Qed.

Lemma assemble_acc seen x nsv :
  good_tm x -> mem "Y" seen = true -> mem "H" seen = true -> mem "M" seen = true -> mem "S" seen = true ->
  (mem "m" seen && mem "d" seen) || mem "j" seen = true ->
  assemble (acc_of seen x nsv) = Some (sec_of_tm x * 1000000000 + nsv).
Proof.
  intros G HY HH HM HS HD. destruct G as [Gy Gv Gh Gmi Gs]. destruct (valid_date_bounds _ _ _ Gv) as (Hm & Hd & Hd31).
  pose proof (yday_range _ _ _ Gv) as Hj.
  unfold assemble, acc_of. cbn [p_y p_mo p_d p_h p_mi p_s p_ns p_j]. rewrite HY, HH, HM, HS.
  destruct (mem "j" seen) eqn:EJ.
  - set (yd := yday (tm_y x) (tm_mo x) (tm_d x)) in *.
    replace ((yd <? 1) || ((if is_leap (tm_y x) then 366 else 365) <? yd)) with false
      by (symmetry; apply orb_false_iff; split; apply Z.ltb_ge; lia).
    replace (days_of_civil (tm_y x) 1 1 + yd - 1) with (days_of_civil (tm_y x) (tm_mo x) (tm_d x)) by (unfold yd, yday; lia).
    rewrite (civil_of_days_of_civil _ _ _ Gv).
    assert (E1 : match (if mem "m" seen then Some (tm_mo x) else None) with Some m' => m' =? tm_mo x | None => true end = true)
      by (destruct (mem "m" seen); [apply Z.eqb_refl|reflexivity]).
    assert (E2 : match (if mem "d" seen then Some (tm_d x) else None) with Some d' => d' =? tm_d x | None => true end = true)
      by (destruct (mem "d" seen); [apply Z.eqb_refl|reflexivity]).
    rewrite E1, E2. cbn [andb]. unfold sec_of_tm. reflexivity.
  - rewrite orb_false_r in HD. apply andb_true_iff in HD. destruct HD as [Hmm Hdd]. rewrite Hmm, Hdd.
    replace ((tm_d x <? 1) || (days_in_month (tm_y x) (tm_mo x) <? tm_d x)) with false
      by (symmetry; apply orb_false_iff; split; apply Z.ltb_ge; lia).
    unfold sec_of_tm. reflexivity.
Qed.

(* ------------------------------------------------------------------ the law *)
Theorem strptime_render pre ps t ns :
  format_ok pre ps = true -> LO <= t <= HI -> 0 <= ns < 1000000000 ->
  strp_exact (pre ++ render ps (tm_of_sec t) ns) (pre ++ flat_parse ps)
  = POk (t * 1000000000 + trunc_ns (last_frac ps 0) ns).
Proof.
  intros Hf Ht Hns. unfold format_ok in Hf. apply andb_true_iff in Hf. destruct Hf as [Hf _]. apply andb_true_iff in Hf. destruct Hf as [Hf Hdet].
  apply andb_true_iff in Hf. destruct Hf as [Hpre Hok].
  set (x := tm_of_sec t). pose proof (good_tm_of_sec t Ht) as G. fold x in G.
  unfold strp_exact. rewrite (lit_until_pct_app pre (flat_parse ps) Hpre (flat_parse_head ps)).
  rewrite fmt_parts_flat by (try (now apply parts_ok_lits); pose proof (flat_parse_length ps); rewrite app_length; lia).
  rewrite (pparts_known ps Hok), (pparts_in_model ps Hok). cbn [negb]. rewrite prefixb_app. cbn [negb]. rewrite skipn_app_length.
  change ptm0 with (acc_of [] x 0).
  rewrite <- (trunc_ns_0 ns Hns) at 1.
  rewrite (parse_render ps x ns [] (trunc_ns 0 ns) G Hns Hok). rewrite (ns_after_trunc ps ns 0%nat Hns).
  unfold determines in Hdet. repeat (apply andb_true_iff in Hdet; destruct Hdet as [Hdet ?]).
  rewrite assemble_acc; try assumption; try (rewrite mem_seen_after; cbn [mem existsb]; rewrite orb_false_r; assumption).
  - f_equal. unfold x. rewrite sec_of_tm_of_sec. reflexivity.
  - rewrite !mem_seen_after. cbn [mem existsb]. rewrite !orb_false_r. assumption.
Qed.

Theorem format_law pre ps t ns :
  format_ok pre ps = true -> LO <= t <= HI -> 0 <= ns < 1000000000 ->
  exists txt, strftime (pre ++ flat_print ps) t ns = Some txt /\
              strp_exact txt (pre ++ flat_parse ps) = POk (t * 1000000000 + trunc_ns (last_frac ps 0) ns).
Proof.
  intros Hf Ht Hns. exists (pre ++ render ps (tm_of_sec t) ns). split; [|now apply strptime_render].
  unfold format_ok in Hf. apply andb_true_iff in Hf. destruct Hf as [Hf _]. apply andb_true_iff in Hf. destruct Hf as [Hf Hdet].
  apply andb_true_iff in Hf. destruct Hf as [Hpre Hok]. now apply strftime_format.
Qed.

Lemma frac_free_same ps : frac_free ps = true -> flat_print ps = flat_parse ps.
Proof.
  induction ps as [|[c l] r IH]; intros H; [reflexivity|].
  cbn [frac_free forallb fst] in H. apply andb_true_iff in H. destruct H as [H1 H2]. apply negb_true_iff in H1.
  cbn [flat_print flat_parse]. unfold parse_code. rewrite H1, (IH H2). reflexivity.
Qed.

Lemma frac_free_last ps : frac_free ps = true -> last_frac ps 0 = O.
Proof.
  assert (G : forall ps k, frac_free ps = true -> k = O -> last_frac ps k = O).
  { induction ps0 as [|[c l] r IH]; intros k H ->; [reflexivity|].
    cbn [frac_free forallb fst] in H. apply andb_true_iff in H. destruct H as [H1 H2]. apply negb_true_iff in H1.
    cbn [last_frac]. rewrite H1. apply IH; [exact H2|]. destruct (Ascii.eqb c "S"); reflexivity. }
  intros H. now apply G.
Qed.

(* the law in its literal form: one and the same format text on both sides *)
Theorem format_law_same_format pre ps t ns :
  format_ok pre ps = true -> frac_free ps = true -> LO <= t <= HI -> 0 <= ns < 1000000000 ->
  let f := pre ++ flat_parse ps in
  exists txt, strftime f t ns = Some txt /\ strp_exact txt f = POk (t * 1000000000).
Proof.
  intros Hf Hfree Ht Hns. cbv zeta. destruct (format_law pre ps t ns Hf Ht Hns) as (txt & E1 & E2).
  rewrite (frac_free_same ps Hfree) in E1. rewrite (frac_free_last ps Hfree) in E2.
  rewrite (trunc_ns_0 ns Hns) in E2. exists txt. split; [exact E1|]. rewrite E2. f_equal. lia.
Qed.

(* formats with %s or %<k>S on the parsing side: pbnjay's strptime has neither, whatever the input *)
Lemma strptime_rejects_epoch_seconds_and_fractional_codes :
  (forall txt, strp_exact txt (B "%s") = PErr) /\ (forall txt, strp_exact txt (B "%Y-%m-%d %H:%M:%6S") = PErr).
Proof. split; intros txt; reflexivity. Qed.

Lemma format_law_refuted_for_epoch_seconds :
  exists f t txt, LO <= t <= HI /\ strftime f t 0 = Some txt /\ strp_exact txt f = PErr.
Proof. exists (B "%s"), 1500000000, (B "1500000000"). split; [unfold LO, HI; lia|]. split; vm_compute; reflexivity. Qed.
