(* C16 correspondence harness: cases written by harness/py/checks/c16.py, evaluated with vm_compute. *)
From Miller Require Import Base.Bytes C16.Model C16.Datediff gen.Gen_Zones.
Open Scope Z_scope.

Definition ERR : bytes := B "(error)".
Definition opt_text (o : option bytes) : bytes := match o with Some b => b | None => ERR end.
Definition zone_of (i : Z) : ztable := nth (Z.to_nat i) gen_zones {| z_base := 0; z_trans := [] |}.

(* case = (kind, a, b, s1, s2); see c16.py for the meaning per kind *)
Definition chk (c : Z * Z * Z * bytes * bytes) : bool :=
  let '(k, a, b, s1, s2) := c in
  match k with
  | 0 => beqb (sec2gmt_int a b) s1
  | 1 => beqb (sec2gmt_float a b) s1
  | 2 => beqb (sec2gmtdate_int a) s1
  | 3 => beqb (nsec2gmt a b) s1
  | 4 => beqb (opt_text (strftime s2 a b)) s1                      (* a = sec, b = nsec *)
  | 5 => let '(s, ns) := split_strftime (sf_of_bits a) in beqb (opt_text (strftime s2 s ns)) s1
  | 6 => let '(s, ns) := unix_norm 0 a in beqb (opt_text (strftime s2 s ns)) s1   (* strfntime *)
  | 7 => match strpntime s1 s2 with                                 (* b = 0 ok (a = ns) / 1 error *)
         | POk ns => (b =? 0) && (ns =? a)
         | PErr => b =? 1
         | POutOfModel => false
         end
  | 8 => beqb (sec2dhms a) s1
  | 9 => beqb (sec2hms a) s1
  | 10 => match dhms2sec s1 with Some v => (b =? 0) && (v =? a) | None => b =? 1 end
  | 11 => match hms2sec s1 with Some v => (b =? 0) && (v =? a) | None => b =? 1 end
  | 12 => beqb (sec2localtime_int (zone_of b) a 0) s1
  | 13 => match localtime2sec (zone_of b) s1 with Some v => v =? a | None => false end
  | 14 => match strptime_bits s1 s2 with Some v => (b =? 0) && (v =? a) | None => b =? 1 end
  | 15 => beqb (dec (datediff a b (unit_of_code (dval (hd "0"%char s1))))) s2   (* s1 = unit code digit, s2 = observed *)
  | _ => false
  end.
