(* C16: calendar lemmas.  The 400-year period is handled by arithmetic (shift lemmas) and one complete era
   (146097 days / 400 years x 12 months x 31 days) by exhaustive computation; together they cover all of Z. *)
From Miller Require Import Base.Bytes C16.Model.
Open Scope Z_scope.
Set Default Timeout 600.

Fixpoint all_below (n : nat) (f : nat -> bool) : bool :=
  match n with O => true | S k => f k && all_below k f end.

Lemma all_below_spec n f : all_below n f = true -> forall i, (i < n)%nat -> f i = true.
Proof.
  induction n as [|n IH]; cbn [all_below]; intros H i Hi; [lia|].
  apply andb_true_iff in H. destruct H as [H1 H2].
  destruct (Nat.eq_dec i n) as [->|Hne]; [exact H1|]. apply IH; [exact H2|lia].
Qed.

Lemma all_below2_spec n m (f : nat -> nat -> bool) :
  all_below n (fun q => all_below m (fun r => f q r)) = true -> forall q r, (q < n)%nat -> (r < m)%nat -> f q r = true.
Proof.
  intros H q r Hq Hr. pose proof (all_below_spec _ _ H q Hq) as H1. cbv beta in H1.
  exact (all_below_spec _ _ H1 r Hr).
Qed.

Lemma all_below3_spec n m l (f : nat -> nat -> nat -> bool) :
  all_below n (fun q => all_below m (fun r => all_below l (fun t => f q r t))) = true ->
  forall q r t, (q < n)%nat -> (r < m)%nat -> (t < l)%nat -> f q r t = true.
Proof.
  intros H q r t Hq Hr Ht. pose proof (all_below_spec _ _ H q Hq) as H1. cbv beta in H1.
  exact (all_below2_spec _ _ _ H1 r t Hr Ht).
Qed.

(* ---- shift by whole eras *)
Lemma civil_shift z k :
  civil_of_days (z + 146097 * k) = (let '(y, m, d) := civil_of_days z in (y + 400 * k, m, d)).
Proof.
  unfold civil_of_days. cbv beta iota zeta.
  replace (z + 146097 * k + 719468) with (z + 719468 + k * 146097) by ring.
  rewrite Z.div_add by lia.
  set (Z0 := z + 719468). set (era := Z0 / 146097).
  replace (Z0 + k * 146097 - (era + k) * 146097) with (Z0 - era * 146097) by ring.
  set (doe := Z0 - era * 146097).
  set (yoe := (doe - doe / 1460 + doe / 36524 - doe / 146096) / 365).
  set (doy := doe - (365 * yoe + yoe / 4 - yoe / 100)).
  set (mp := (5 * doy + 2) / 153).
  destruct (mp <? 10); match goal with |- context [if ?b then _ else _] => destruct b end; cbv beta iota;
    repeat match goal with |- (_, _) = (_, _) => apply (f_equal2 pair) end; try reflexivity; lia.
Qed.

Lemma days_shift y m d k : days_of_civil (y + 400 * k) m d = days_of_civil y m d + 146097 * k.
Proof.
  unfold days_of_civil. cbv zeta.
  destruct (m <=? 2).
  - replace (y + 400 * k - 1) with (y - 1 + k * 400) by ring. rewrite Z.div_add by lia.
    set (e := (y - 1) / 400).
    replace (y - 1 + k * 400 - (e + k) * 400) with (y - 1 - e * 400) by ring. lia.
  - replace (y + 400 * k) with (y + k * 400) by ring. rewrite Z.div_add by lia.
    set (e := y / 400).
    replace (y + k * 400 - (e + k) * 400) with (y - e * 400) by ring. lia.
Qed.

Lemma is_leap_mod y : is_leap (y mod 400) = is_leap y.
Proof.
  unfold is_leap.
  assert (H4 : (y mod 400) mod 4 = y mod 4) by (Z.div_mod_to_equations; lia).
  assert (H100 : (y mod 400) mod 100 = y mod 100) by (Z.div_mod_to_equations; lia).
  rewrite H4, H100, Z.mod_mod by lia. reflexivity.
Qed.

Lemma valid_date_mod y m d : valid_date (y mod 400) m d = valid_date y m d.
Proof. unfold valid_date, days_in_month. now rewrite is_leap_mod. Qed.

(* ---- one complete era by computation *)
Definition chk_day (z : Z) : bool :=
  let '(y, m, d) := civil_of_days z in valid_date y m d && (days_of_civil y m d =? z).

Definition day_f (q r : nat) : bool := chk_day (Z.of_nat q * 366 + Z.of_nat r - 719468).
Lemma era_days_ok_true : all_below 400 (fun q => all_below 366 (fun r => day_f q r)) = true.
Proof. vm_compute. reflexivity. Qed.

Lemma chk_day_era z : 0 <= z + 719468 < 146097 -> chk_day z = true.
Proof.
  intros Hz. set (w := z + 719468) in *.
  assert (Hq : 0 <= w / 366 < 400) by (split; [apply Z.div_pos; lia | apply Z.div_lt_upper_bound; lia]).
  assert (Hr : 0 <= w mod 366 < 366) by (apply Z.mod_pos_bound; lia).
  pose proof (all_below2_spec 400 366 day_f era_days_ok_true
                (Z.to_nat (w / 366)) (Z.to_nat (w mod 366)) ltac:(lia) ltac:(lia)) as H2.
  unfold day_f in H2.
  rewrite !Z2Nat.id in H2 by lia.
  replace (w / 366 * 366 + w mod 366 - 719468) with z in H2; [exact H2|].
  pose proof (Z.div_mod w 366 ltac:(lia)). unfold w in *. lia.
Qed.

Definition chk_ymd (y m d : Z) : bool :=
  negb (valid_date y m d) ||
  (let '(y', m', d') := civil_of_days (days_of_civil y m d) in (y' =? y) && (m' =? m) && (d' =? d)).

Definition ymd_f (y m d : nat) : bool := chk_ymd (Z.of_nat y) (Z.of_nat m + 1) (Z.of_nat d + 1).
Lemma era_ymd_ok_true : all_below 400 (fun y => all_below 12 (fun m => all_below 31 (fun d => ymd_f y m d))) = true.
Proof. vm_compute. reflexivity. Qed.

Lemma chk_ymd_era y m d : 0 <= y < 400 -> valid_date y m d = true -> chk_ymd y m d = true.
Proof.
  intros Hy Hv.
  assert (Hm : 1 <= m <= 12 /\ 1 <= d <= 31).
  { unfold valid_date, days_in_month in Hv.
    repeat (apply andb_true_iff in Hv; destruct Hv as [Hv ?]).
    repeat match goal with H : (_ <=? _) = true |- _ => apply Z.leb_le in H end.
    split; [lia|]. split; [lia|].
    destruct (m =? 2); [destruct (is_leap y); lia|].
    destruct ((m =? 4) || (m =? 6) || (m =? 9) || (m =? 11)); lia. }
  pose proof (all_below3_spec 400 12 31 ymd_f era_ymd_ok_true
                (Z.to_nat y) (Z.to_nat (m - 1)) (Z.to_nat (d - 1)) ltac:(lia) ltac:(lia) ltac:(lia)) as H3.
  unfold ymd_f in H3.
  rewrite !Z2Nat.id in H3 by lia.
  replace (m - 1 + 1) with m in H3 by ring. replace (d - 1 + 1) with d in H3 by ring. exact H3.
Qed.

(* ---- the inverse theorems, all integers *)
Lemma days_of_civil_of_days z :
  let '(y, m, d) := civil_of_days z in valid_date y m d = true /\ days_of_civil y m d = z.
Proof.
  set (w := z + 719468). set (k := w / 146097). set (z0 := w mod 146097 - 719468).
  assert (Hz : z = z0 + 146097 * k).
  { unfold z0, k. pose proof (Z.div_mod w 146097 ltac:(lia)). unfold w in *. lia. }
  assert (H0 : 0 <= z0 + 719468 < 146097).
  { unfold z0. pose proof (Z.mod_pos_bound w 146097 ltac:(lia)). lia. }
  pose proof (chk_day_era z0 H0) as Hc. unfold chk_day in Hc.
  rewrite Hz, civil_shift.
  destruct (civil_of_days z0) as [[y m] d].
  apply andb_true_iff in Hc. destruct Hc as [Hv He]. apply Z.eqb_eq in He.
  split.
  - rewrite <- valid_date_mod. replace ((y + 400 * k) mod 400) with (y mod 400).
    + now rewrite valid_date_mod.
    + replace (y + 400 * k) with (y + k * 400) by ring. now rewrite Z.mod_add by lia.
  - rewrite days_shift. lia.
Qed.

Lemma civil_of_days_of_civil y m d :
  valid_date y m d = true -> civil_of_days (days_of_civil y m d) = (y, m, d).
Proof.
  intros Hv. set (k := y / 400). set (y0 := y mod 400).
  assert (Hy : y = y0 + 400 * k) by (unfold y0, k; pose proof (Z.div_mod y 400 ltac:(lia)); lia).
  assert (H0 : 0 <= y0 < 400) by (apply Z.mod_pos_bound; lia).
  assert (Hv0 : valid_date y0 m d = true) by (unfold y0; now rewrite valid_date_mod).
  pose proof (chk_ymd_era y0 m d H0 Hv0) as Hc. unfold chk_ymd in Hc. rewrite Hv0 in Hc. cbn [negb orb] in Hc.
  rewrite Hy at 1. rewrite days_shift, civil_shift.
  destruct (civil_of_days (days_of_civil y0 m d)) as [[y' m'] d'].
  repeat (apply andb_true_iff in Hc; destruct Hc as [Hc ?]).
  repeat match goal with H : (_ =? _) = true |- _ => apply Z.eqb_eq in H end.
  repeat match goal with |- (_, _) = (_, _) => apply (f_equal2 pair) end; lia.
Qed.

(* ---- closed form, month and year lengths *)
Lemma days_closed_form y m d :
  days_of_civil y m d =
  (let y' := if m <=? 2 then y - 1 else y in
   365 * y' + y' / 4 - y' / 100 + y' / 400 + (153 * ((m + 9) mod 12) + 2) / 5 + d - 1 - 719468).
Proof.
  unfold days_of_civil. cbv zeta. set (y' := if m <=? 2 then y - 1 else y).
  Z.div_mod_to_equations. lia.
Qed.

Definition chk_month (y m : Z) : bool :=
  if m =? 12 then days_of_civil (y + 1) 1 1 - days_of_civil y 12 1 =? 31
  else days_of_civil y (m + 1) 1 - days_of_civil y m 1 =? days_in_month y m.

Definition month_f (y m : nat) : bool := chk_month (Z.of_nat y) (Z.of_nat m + 1).
Lemma era_months_ok_true : all_below 400 (fun y => all_below 12 (fun m => month_f y m)) = true.
Proof. vm_compute. reflexivity. Qed.

Lemma month_length y m :
  1 <= m <= 12 ->
  (if m =? 12 then days_of_civil (y + 1) 1 1 else days_of_civil y (m + 1) 1) - days_of_civil y m 1 = days_in_month y m.
Proof.
  intros Hm. set (k := y / 400). set (y0 := y mod 400).
  assert (Hy : y = y0 + 400 * k) by (unfold y0, k; pose proof (Z.div_mod y 400 ltac:(lia)); lia).
  assert (H0 : 0 <= y0 < 400) by (apply Z.mod_pos_bound; lia).
  pose proof (all_below2_spec 400 12 month_f era_months_ok_true
                (Z.to_nat y0) (Z.to_nat (m - 1)) ltac:(lia) ltac:(lia)) as H2.
  unfold month_f in H2.
  rewrite !Z2Nat.id in H2 by lia. replace (m - 1 + 1) with m in H2 by ring.
  unfold chk_month in H2.
  assert (Hd : days_in_month y m = days_in_month y0 m) by (unfold days_in_month, y0; now rewrite is_leap_mod).
  rewrite Hd. rewrite Hy.
  replace (y0 + 400 * k + 1) with (y0 + 1 + 400 * k) by ring. rewrite !days_shift.
  destruct (m =? 12) eqn:E.
  - apply Z.eqb_eq in E. subst m. apply Z.eqb_eq in H2. cbn [days_in_month] in *.
    replace (days_in_month y0 12) with 31 by reflexivity. lia.
  - apply Z.eqb_eq in H2. lia.
Qed.

Lemma year_length y : days_of_civil (y + 1) 1 1 - days_of_civil y 1 1 = if is_leap y then 366 else 365.
Proof.
  pose proof (month_length y) as M.
  pose proof (M 1 ltac:(lia)) as M1. pose proof (M 2 ltac:(lia)) as M2. pose proof (M 3 ltac:(lia)) as M3.
  pose proof (M 4 ltac:(lia)) as M4. pose proof (M 5 ltac:(lia)) as M5. pose proof (M 6 ltac:(lia)) as M6.
  pose proof (M 7 ltac:(lia)) as M7. pose proof (M 8 ltac:(lia)) as M8. pose proof (M 9 ltac:(lia)) as M9.
  pose proof (M 10 ltac:(lia)) as M10. pose proof (M 11 ltac:(lia)) as M11. pose proof (M 12 ltac:(lia)) as M12.
  cbn [Z.eqb Pos.eqb Z.add Pos.add Pos.succ] in *. unfold days_in_month in *. cbn [Z.eqb Pos.eqb orb] in *.
  destruct (is_leap y); lia.
Qed.

(* day within the month is linear *)
Lemma days_of_civil_day y m d d' : days_of_civil y m d' - days_of_civil y m d = d' - d.
Proof. unfold days_of_civil. cbv zeta. lia. Qed.

(* ---- years 1..9999 <-> the instants range *)
Lemma days_year_lower y m d : valid_date y m d = true -> y <= 0 -> days_of_civil y m d < -719162.
Proof.
  intros Hv Hy. rewrite days_closed_form. cbv zeta.
  unfold valid_date, days_in_month in Hv.
  repeat (apply andb_true_iff in Hv; destruct Hv as [Hv ?]).
  repeat match goal with H : (_ <=? _) = true |- _ => apply Z.leb_le in H end.
  assert (d <= 31) by (destruct (m =? 2); [destruct (is_leap y); lia|]; destruct ((m =? 4) || (m =? 6) || (m =? 9) || (m =? 11)); lia).
  destruct (m <=? 2) eqn:E; [apply Z.leb_le in E | apply Z.leb_gt in E]; Z.div_mod_to_equations; lia.
Qed.

Lemma days_year_upper y m d : valid_date y m d = true -> 10000 <= y -> 2932896 < days_of_civil y m d.
Proof.
  intros Hv Hy. rewrite days_closed_form. cbv zeta.
  unfold valid_date in Hv.
  repeat (apply andb_true_iff in Hv; destruct Hv as [Hv ?]).
  repeat match goal with H : (_ <=? _) = true |- _ => apply Z.leb_le in H end.
  destruct (m <=? 2) eqn:E; [apply Z.leb_le in E | apply Z.leb_gt in E]; Z.div_mod_to_equations; lia.
Qed.
