(* C16 model, third part: datediff (pkg/bifs/datetime.go BIF_datediff, civilDaysBetween) on integer epoch seconds.
   time.Date normalisation of month 0 and of days beyond the month's end is modelled through days_of_civil, which is
   linear in the day and is given month 12 of the previous year for month 0.  Definitions only. *)
From Miller Require Import Base.Bytes C16.Model.
Open Scope Z_scope.

Inductive ddunit := UD | UM | UY | UYM | UMD | UYD.

(* day number of time.Date(y, m, d) for 0 <= m <= 12 and any d *)
Definition dnorm (y m d : Z) : Z := if m =? 0 then days_of_civil (y - 1) 12 d else days_of_civil y m d.
Definition civil_days_between (y1 m1 d1 y2 m2 d2 : Z) : Z := dnorm y2 m2 d2 - dnorm y1 m1 d1.

(* start <= end *)
Definition datediff_core (a b : Z) (u : ddunit) : Z :=
  let '(y1, m1, d1) := civil_of_days (a / 86400) in
  let '(y2, m2, d2) := civil_of_days (b / 86400) in
  let months := (y2 - y1) * 12 + m2 - m1 - (if d2 <? d1 then 1 else 0) in
  let years := y2 - y1 - (if (m2 <? m1) || ((m2 =? m1) && (d2 <? d1)) then 1 else 0) in
  match u with
  | UD => civil_days_between y1 m1 d1 y2 m2 d2
  | UM => months
  | UY => years
  | UYM => months - 12 * years
  | UMD => if d1 <=? d2 then d2 - d1 else civil_days_between y2 (m2 - 1) d1 y2 m2 d2
  | UYD =>
      let anchor := if (m2 <? m1) || ((m1 =? m2) && (d2 <? d1)) then y2 - 1 else y2 in
      civil_days_between anchor m1 d1 y2 m2 d2
  end.

Definition datediff (a b : Z) (u : ddunit) : Z :=
  if b <? a then - datediff_core b a u else datediff_core a b u.

Definition unit_of_code (n : Z) : ddunit :=
  if n =? 0 then UD else if n =? 1 then UM else if n =? 2 then UY else if n =? 3 then UYM else if n =? 4 then UMD else UYD.
