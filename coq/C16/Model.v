(* C16 model: time conversion functions.
   pkg/lib/time.go (secToFormattedTime, goTimeToFormattedTime), pkg/bifs/datetime.go (sec2gmt, sec2gmtdate,
   strftime with the Miller extensions, gmt2sec via strptime), pkg/pbnjay-strptime/strptime.go composed with
   Go's time.Parse for the numeric codes, pkg/bifs/relative_time.go (sec2dhms ... with splitIntToDHMS on int64),
   and Go's time.Location lookup / time.Date zone resolution over a transition table.
   Go's `time` package is modelled by its specification (proleptic Gregorian calendar, Unix time without leap
   seconds); the tie to the code is the correspondence check.  Definitions only. *)
From Miller Require Import Base.Bytes.
Open Scope char_scope.
Open Scope Z_scope.

(* ------------------------------------------------------------------ decimal text *)
Definition digit (n : Z) : ascii := ascii_of_N (48 + Z.to_N n).

(* w low-order decimal digits of n (n >= 0), most significant first *)
Fixpoint digs (w : nat) (n : Z) : bytes :=
  match w with
  | O => []
  | S w' => digs w' (n / 10) ++ [digit (n mod 10)]
  end.

(* number of decimal digits of n >= 0 (at least 1); exact for n < 10^fuel *)
Fixpoint ndig (fuel : nat) (n : Z) : nat :=
  match fuel with
  | O => 1%nat
  | S f => if n <? 10 then 1%nat else S (ndig f (n / 10))
  end.

Definition FUEL : nat := 40%nat.
Definition dec_nn (n : Z) : bytes := digs (ndig FUEL n) n.
(* Go fmt %d *)
Definition dec (n : Z) : bytes := if n <? 0 then "-" :: dec_nn (- n) else dec_nn n.
(* Go fmt %0wd: zero padding to total width w, the sign counts *)
Definition padnn (w : nat) (n : Z) : bytes := if (Nat.leb w (ndig FUEL n)) then dec_nn n else digs w n.
Definition padz (w : nat) (n : Z) : bytes := if n <? 0 then "-" :: padnn (pred w) (- n) else padnn w n.

Definition is_digit (c : ascii) : bool := in_range "0" "9" c.
Definition dval (c : ascii) : Z := Z.of_N (code c) - 48.
Fixpoint parse_acc (acc : Z) (s : bytes) : Z :=
  match s with [] => acc | c :: t => parse_acc (acc * 10 + dval c) t end.
Definition parse_digits (s : bytes) : option Z :=
  match s with
  | [] => None
  | _ => if forallb is_digit s then Some (parse_acc 0 s) else None
  end.

(* ------------------------------------------------------------------ proleptic Gregorian calendar *)
Definition is_leap (y : Z) : bool := (y mod 4 =? 0) && (negb (y mod 100 =? 0) || (y mod 400 =? 0)).

Definition days_in_month (y m : Z) : Z :=
  if m =? 2 then (if is_leap y then 29 else 28)
  else if (m =? 4) || (m =? 6) || (m =? 9) || (m =? 11) then 30 else 31.

Definition valid_date (y m d : Z) : bool := (1 <=? m) && (m <=? 12) && (1 <=? d) && (d <=? days_in_month y m).

(* days since 1970-01-01 *)
Definition days_of_civil (y m d : Z) : Z :=
  let y' := if m <=? 2 then y - 1 else y in
  let era := y' / 400 in
  let yoe := y' - era * 400 in
  let mp := (m + 9) mod 12 in
  let doy := (153 * mp + 2) / 5 + d - 1 in
  let doe := yoe * 365 + yoe / 4 - yoe / 100 + doy in
  era * 146097 + doe - 719468.

Definition civil_of_days (z0 : Z) : Z * Z * Z :=
  let z := z0 + 719468 in
  let era := z / 146097 in
  let doe := z - era * 146097 in
  let yoe := (doe - doe / 1460 + doe / 36524 - doe / 146096) / 365 in
  let y := yoe + era * 400 in
  let doy := doe - (365 * yoe + yoe / 4 - yoe / 100) in
  let mp := (5 * doy + 2) / 153 in
  let d := doy - (153 * mp + 2) / 5 + 1 in
  let m := if mp <? 10 then mp + 3 else mp - 9 in
  (if m <=? 2 then y + 1 else y, m, d).

(* 1-based day of year *)
Definition yday (y m d : Z) : Z := days_of_civil y m d - days_of_civil y 1 1 + 1.

(* broken-down UTC time of an instant given as whole seconds since the epoch *)
Record tm := { tm_y : Z; tm_mo : Z; tm_d : Z; tm_h : Z; tm_mi : Z; tm_s : Z }.
Definition tm_of_sec (t : Z) : tm :=
  let days := t / 86400 in
  let r := t mod 86400 in
  let '(y, m, d) := civil_of_days days in
  {| tm_y := y; tm_mo := m; tm_d := d; tm_h := r / 3600; tm_mi := (r / 60) mod 60; tm_s := r mod 60 |}.
Definition sec_of_tm (x : tm) : Z :=
  days_of_civil (tm_y x) (tm_mo x) (tm_d x) * 86400 + tm_h x * 3600 + tm_mi x * 60 + tm_s x.

(* ------------------------------------------------------------------ sec2gmt family (pkg/lib/time.go) *)
Definition ymd_text (x : tm) : bytes := padz 4 (tm_y x) ++ "-" :: padz 2 (tm_mo x) ++ "-" :: padz 2 (tm_d x).
Definition hms_text (x : tm) : bytes := padz 2 (tm_h x) ++ ":" :: padz 2 (tm_mi x) ++ ":" :: padz 2 (tm_s x).

Definition pow10 (n : nat) : Z := 10 ^ Z.of_nat n.
Definition clamp_nd (nd : Z) : nat := if nd <? 0 then 0%nat else if 9 <? nd then 9%nat else Z.to_nat nd.

(* goTimeToFormattedTime on the instant sec + nsec/1e9 (0 <= nsec < 1e9); [loc] = false gives the ...T...Z form *)
Definition fmt_time (loc : bool) (sec nsec nd : Z) : bytes :=
  let x := tm_of_sec sec in
  let n := clamp_nd nd in
  let frac := match n with O => [] | _ => "." :: padnn n (nsec / pow10 (9 - n)) end in
  if loc then ymd_text x ++ " " :: hms_text x ++ frac
  else ymd_text x ++ "T" :: hms_text x ++ frac ++ ["Z"].

(* sec2gmt on an int-typed argument n (float64(n) is exact for |n| < 2^53: modelled, tied by correspondence) *)
Definition sec2gmt_int (n nd : Z) : bytes := fmt_time false n 0 nd.
Definition sec2gmtdate_int (n : Z) : bytes := ymd_text (tm_of_sec n).
(* nsec2gmt: Go's / and % truncate towards zero, then time.Unix normalises *)
Definition nsec2gmt (ns nd : Z) : bytes := fmt_time false (ns / 1000000000) (ns mod 1000000000) nd.

(* --- the float argument path: IEEE binary64 arithmetic exactly as secToFormattedTime does it, on SpecFloat *)
From Coq Require Import Floats.SpecFloat.
Definition prec := 53.
Definition emax := 1024.
Definition sf_of_bits (b : Z) : spec_float :=
  let s := Z.testbit b 63 in
  let e := (b / 2 ^ 52) mod 2048 in
  let m := b mod 2 ^ 52 in
  if e =? 0 then (if m =? 0 then S754_zero s else S754_finite s (Z.to_pos m) (-1074))
  else if e =? 2047 then (if m =? 0 then S754_infinity s else S754_nan)
  else S754_finite s (Z.to_pos (m + 2 ^ 52)) (e - 1075).
Definition sf_of_Z (n : Z) : spec_float :=
  match n with
  | Z0 => S754_zero false
  | Zpos p => binary_normalize prec emax (Zpos p) 0 false
  | Zneg p => SFopp (binary_normalize prec emax (Zpos p) 0 false)
  end.
(* truncation towards zero *)
Definition sf_trunc (f : spec_float) : Z :=
  match f with
  | S754_finite s m e =>
      let a := if 0 <=? e then Zpos m * 2 ^ e else Zpos m / 2 ^ (- e) in
      if s then - a else a
  | _ => 0
  end.
Definition sf_neg (f : spec_float) : bool :=
  match f with S754_finite s _ _ => s | _ => false end.
Definition sf_1e9 := sf_of_Z 1000000000.
Definition sf_one := sf_of_Z 1.

(* time.Unix(sec, nsec) normalisation *)
Definition unix_norm (sec nsec : Z) : Z * Z := (sec + nsec / 1000000000, nsec mod 1000000000).

(* secToFormattedTime: (sec, nsec) handed to time.Unix *)
Definition split_sec2gmt (x : spec_float) : Z * Z :=
  let ip := sf_trunc x in
  let fp := SFsub prec emax x (sf_of_Z ip) in
  let '(ip, fp) := if sf_neg fp then (ip - 1, SFadd prec emax fp sf_one) else (ip, fp) in
  unix_norm ip (sf_trunc (SFmul prec emax fp sf_1e9)).
(* epochSecondsToTime (strftime path): no adjustment before time.Unix *)
Definition split_strftime (x : spec_float) : Z * Z :=
  let ip := sf_trunc x in
  let fp := SFsub prec emax x (sf_of_Z ip) in
  unix_norm ip (sf_trunc (SFmul prec emax fp sf_1e9)).

Definition sec2gmt_float (bits nd : Z) : bytes :=
  let '(s, ns) := split_sec2gmt (sf_of_bits bits) in fmt_time false s ns nd.

(* ------------------------------------------------------------------ strftime (lestrrat + Miller extensions) *)
(* rewriteFractionalSecondsSpecifiers (pkg/bifs/datetime.go, after fix: 51c7c7a2d): "%<1-9>S" -> "%<1-9>", scanning left to
   right and skipping "%%" pairs, so "%%5S" is left alone.  Fuel = length of the format (each step consumes >= 1 byte). *)
Fixpoint ext_rewrite_fuel (fuel : nat) (f : bytes) : bytes :=
  match fuel with
  | O => f
  | S k =>
      match f with
      | p :: q :: t =>
          if Ascii.eqb p "%" then
            if Ascii.eqb q "%" then p :: q :: ext_rewrite_fuel k t
            else
              match t with
              | s :: t' =>
                  if in_range "1" "9" q && Ascii.eqb s "S" then p :: q :: ext_rewrite_fuel k t'
                  else p :: ext_rewrite_fuel k (q :: t)
              | [] => f
              end
          else p :: ext_rewrite_fuel k (q :: t)
      | _ => f
      end
  end.
Definition ext_rewrite (f : bytes) : bytes := ext_rewrite_fuel (List.length f) f.

Definition frac_sec (x : tm) (nsec : Z) (n : nat) (w : nat) : bytes :=
  padz 2 (tm_s x) ++ "." :: padnn w (nsec / pow10 (9 - n)).

(* one verb; None = not in the modelled subset (or a lestrrat error) *)
Definition strftime_verb (c : ascii) (sec nsec : Z) : option bytes :=
  let x := tm_of_sec sec in
  if Ascii.eqb c "Y" then Some (padz 4 (tm_y x))
  else if Ascii.eqb c "m" then Some (padz 2 (tm_mo x))
  else if Ascii.eqb c "d" then Some (padz 2 (tm_d x))
  else if Ascii.eqb c "H" then Some (padz 2 (tm_h x))
  else if Ascii.eqb c "M" then Some (padz 2 (tm_mi x))
  else if Ascii.eqb c "S" then Some (padz 2 (tm_s x))
  else if Ascii.eqb c "j" then Some (padz 3 (yday (tm_y x) (tm_mo x) (tm_d x)))
  else if Ascii.eqb c "s" then Some (dec sec)
  else if Ascii.eqb c "F" then Some (ymd_text x)
  else if Ascii.eqb c "T" then Some (hms_text x)
  else if Ascii.eqb c "N" then Some (padnn 9 nsec)
  else if Ascii.eqb c "O" then Some (dec nsec)
  else if Ascii.eqb c "%" then Some ["%"]
  else if in_range "1" "9" c then
    let n := Z.to_nat (dval c) in Some (frac_sec x nsec n n)
  else None.

Fixpoint strftime_go (f : bytes) (sec nsec : Z) : option bytes :=
  match f with
  | [] => Some []
  | c :: t =>
      if Ascii.eqb c "%" then
        match t with
        | [] => None
        | v :: t' =>
            match strftime_verb v sec nsec, strftime_go t' sec nsec with
            | Some a, Some b => Some (a ++ b)
            | _, _ => None
            end
        end
      else match strftime_go t sec nsec with Some b => Some (c :: b) | None => None end
  end.

Definition strftime (f : bytes) (sec nsec : Z) : option bytes := strftime_go (ext_rewrite f) sec nsec.

(* int64 wrap-around *)
Definition wrap64 (z : Z) : Z := (z + 2 ^ 63) mod 2 ^ 64 - 2 ^ 63.
Definition MIN64 : Z := - 2 ^ 63.
Definition MAX64 : Z := 2 ^ 63 - 1.
Definition in64 (z : Z) : bool := (MIN64 <=? z) && (z <=? MAX64).

(* ------------------------------------------------------------------ strptime (pbnjay + time.Parse), numeric codes *)
(* first occurrence of the non-empty needle: (text before, text after) *)
Fixpoint find_sub (needle s : bytes) : option (bytes * bytes) :=
  if prefixb needle s then Some ([], skipn (List.length needle) s)
  else match s with
       | [] => None
       | c :: t => match find_sub needle t with Some (a, b) => Some (c :: a, b) | None => None end
       end.

(* format split at '%': prefix literal, then (code, literal after the code) parts *)
Fixpoint lit_until_pct (f : bytes) : bytes * bytes :=
  match f with
  | [] => ([], [])
  | c :: t => if Ascii.eqb c "%" then ([], f) else let '(a, b) := lit_until_pct t in (c :: a, b)
  end.

Fixpoint fmt_parts (fuel : nat) (f : bytes) : option (list (ascii * bytes)) :=
  match fuel with
  | O => None
  | S fu =>
      match f with
      | [] => Some []
      | p :: c :: t =>
          if Ascii.eqb p "%" then
            let '(lit, rest) := lit_until_pct t in
            match fmt_parts fu rest with Some l => Some ((c, lit) :: l) | None => None end
          else None
      | _ => None
      end
  end.

Record ptm := { p_y : option Z; p_mo : option Z; p_d : option Z; p_h : Z; p_mi : Z; p_s : Z; p_ns : Z; p_j : option Z }.
Definition ptm0 := {| p_y := None; p_mo := None; p_d := None; p_h := 0; p_mi := 0; p_s := 0; p_ns := 0; p_j := None |}.

Definition code_width (c : ascii) : option nat :=
  if Ascii.eqb c "Y" then Some 4%nat
  else if Ascii.eqb c "j" then Some 3%nat
  else if Ascii.eqb c "m" || Ascii.eqb c "d" || Ascii.eqb c "H" || Ascii.eqb c "M" || Ascii.eqb c "S" then Some 2%nat
  else None.

Definition zero_pad_left (s : bytes) (n : nat) : bytes :=
  if Nat.leb n (List.length s) then s
  else if forallb is_digit s then repeat "0" (n - List.length s) ++ s else s.

(* fraction after the seconds: '.' or ',' then >= 1 digits, all of the rest; at most 9 digits count *)
Definition parse_frac (s : bytes) : option Z :=
  match s with
  | [] => Some 0
  | c :: ds =>
      if (Ascii.eqb c "." || Ascii.eqb c ",") then
        match ds with
        | [] => None
        | _ => if forallb is_digit ds then
                 let ds9 := firstn 9 ds in
                 Some (parse_acc 0 ds9 * pow10 (9 - List.length ds9))
               else None
        end
      else None
  end.

(* fractionalSecondsLen (after fix: 537908ee1): '.' or ',' followed by one or more digits, else 0 *)
Fixpoint count_digits (s : bytes) : nat :=
  match s with c :: t => if is_digit c then S (count_digits t) else O | [] => O end.
Definition frac_len (s : bytes) : nat :=
  match s with
  | c :: ds => if (Ascii.eqb c "." || Ascii.eqb c ",") then match count_digits ds with O => O | n => S n end else O
  | [] => O
  end.

(* codes known to pbnjay's formatMap; the shorthands expandShorthands rewrites; anything else is ErrFormatUnsupported *)
Definition strp_known (c : ascii) : bool :=
  existsb (Ascii.eqb c) (B "aAbBhdefHIjmMpSyYzZ") || existsb (Ascii.eqb c) (B "cxXTDFRr") || Ascii.eqb c "%".

(* the range checks time.Parse applies per field *)
Definition upd (c : ascii) (v ns : Z) (acc : ptm) : option ptm :=
  if Ascii.eqb c "S" then
    if v <? 60 then Some {| p_y := p_y acc; p_mo := p_mo acc; p_d := p_d acc; p_h := p_h acc; p_mi := p_mi acc; p_s := v; p_ns := ns; p_j := p_j acc |} else None
  else if Ascii.eqb c "Y" then Some {| p_y := Some v; p_mo := p_mo acc; p_d := p_d acc; p_h := p_h acc; p_mi := p_mi acc; p_s := p_s acc; p_ns := p_ns acc; p_j := p_j acc |}
  else if Ascii.eqb c "m" then
    if (1 <=? v) && (v <=? 12) then Some {| p_y := p_y acc; p_mo := Some v; p_d := p_d acc; p_h := p_h acc; p_mi := p_mi acc; p_s := p_s acc; p_ns := p_ns acc; p_j := p_j acc |} else None
  else if Ascii.eqb c "d" then Some {| p_y := p_y acc; p_mo := p_mo acc; p_d := Some v; p_h := p_h acc; p_mi := p_mi acc; p_s := p_s acc; p_ns := p_ns acc; p_j := p_j acc |}
  else if Ascii.eqb c "H" then
    if v <? 24 then Some {| p_y := p_y acc; p_mo := p_mo acc; p_d := p_d acc; p_h := v; p_mi := p_mi acc; p_s := p_s acc; p_ns := p_ns acc; p_j := p_j acc |} else None
  else if Ascii.eqb c "M" then
    if v <? 60 then Some {| p_y := p_y acc; p_mo := p_mo acc; p_d := p_d acc; p_h := p_h acc; p_mi := v; p_s := p_s acc; p_ns := p_ns acc; p_j := p_j acc |} else None
  else if Ascii.eqb c "j" then Some {| p_y := p_y acc; p_mo := p_mo acc; p_d := p_d acc; p_h := p_h acc; p_mi := p_mi acc; p_s := p_s acc; p_ns := p_ns acc; p_j := Some v |}
  else None.

Definition set_field (c : ascii) (comp : bytes) (w : nat) (acc : ptm) : option ptm :=
  let comp := zero_pad_left comp w in
  let body := firstn w comp in
  let extra := skipn w comp in
  if negb (Nat.eqb (List.length body) w) then None else
  match parse_digits body with
  | None => None
  | Some v =>
      if Ascii.eqb c "S" then
        match parse_frac extra with Some ns => upd c v ns acc | None => None end
      else match extra with _ :: _ => None | [] => upd c v 0 acc end
  end.

Inductive presult := POk (ns : Z) | PErr | POutOfModel.

(* the parts loop of strptime_tz; a part's text runs to the first occurrence of its trailing literal,
   or takes min(width, remaining) bytes when there is no trailing literal (plus, for %S, a fractional-seconds suffix);
   a code outside formatMap is ErrFormatUnsupported (an error), e.g. %s and %1..%9 *)
Fixpoint parse_parts (parts : list (ascii * bytes)) (inp : bytes) (acc : ptm) : option (option ptm) :=
  match parts with
  | [] => match inp with [] => Some (Some acc) | _ => Some None end
  | (c, lit) :: rest =>
      match code_width c with
      | None => if strp_known c then None else Some None
      | Some w =>
          match lit with
          | [] =>
              match inp with
              | [] => Some None
              | _ =>
                  let w' := if Ascii.eqb c "S" then (w + frac_len (skipn w inp))%nat else w in
                  let comp := firstn w' inp in
                  match set_field c comp w acc with
                  | Some acc' => parse_parts rest (skipn w' inp) acc'
                  | None => Some None
                  end
              end
          | _ =>
              match find_sub lit inp with
              | None => Some None
              | Some (comp, after) =>
                  match set_field c comp w acc with
                  | Some acc' => parse_parts rest after acc'
                  | None => Some None
                  end
              end
          end
      end
  end.

(* time.Parse's final assembly: yday wins over defaults and must agree with month/day when those are given *)
Definition assemble (a : ptm) : option Z :=
  let y := match p_y a with Some y => y | None => 0 end in
  let dl := if is_leap y then 366 else 365 in
  match p_j a with
  | Some j =>
      if (j <? 1) || (dl <? j) then None else
      let '(_, m, d) := civil_of_days (days_of_civil y 1 1 + j - 1) in
      let okm := match p_mo a with Some m' => m' =? m | None => true end in
      let okd := match p_d a with Some d' => d' =? d | None => true end in
      if okm && okd then Some (((days_of_civil y m d) * 86400 + p_h a * 3600 + p_mi a * 60 + p_s a) * 1000000000 + p_ns a) else None
  | None =>
      let m := match p_mo a with Some m => m | None => 1 end in
      let d := match p_d a with Some d => d | None => 1 end in
      if (d <? 1) || (days_in_month y m <? d) then None
      else Some (((days_of_civil y m d) * 86400 + p_h a * 3600 + p_mi a * 60 + p_s a) * 1000000000 + p_ns a)
  end.

(* strpntime(input, format) in UTC: nanoseconds since the epoch.
   Modelled domain: format = literal prefix, then numeric codes Y m d H M S j each followed by a literal whose
   first byte is not a digit (the last one may have none). *)
Definition lit_head_ok (l : bytes) : bool := match l with [] => true | c :: _ => negb (is_digit c) && negb (Ascii.eqb c ".") && negb (Ascii.eqb c ",") end.
(* the literal is handed to time.Parse as part of the LAYOUT, where digits (1 2 3 4 5 01.. 15 2006) and the words Jan Mon MST
   PM pm are fields, not text (known finding strptime-literal-read-as-layout): literals with a digit or J M P p are outside the model *)
Definition lit_plain (l : bytes) : bool :=
  forallb (fun c => negb (is_digit c) && negb (existsb (Ascii.eqb c) ["J"; "M"; "P"; "p"])) l.
Definition lit_ok (l : bytes) : bool := lit_head_ok l && lit_plain l.
Fixpoint parts_in_model (ps : list (ascii * bytes)) : bool :=
  match ps with
  | [] => true
  | [(c, l)] => match code_width c with Some _ => lit_ok l | None => false end
  | (c, l) :: t => match code_width c, l with Some _, _ :: _ => lit_ok l && parts_in_model t | _, _ => false end
  end.

Definition strp_exact (inp f : bytes) : presult :=
  let '(pre, rest) := lit_until_pct f in
  match fmt_parts (S (List.length f)) rest with
  | None => POutOfModel
  | Some parts =>
      if existsb (fun p => negb (strp_known (fst p))) parts then PErr    (* ErrFormatUnsupported, whatever the input *)
      else if negb (parts_in_model parts) then POutOfModel
      else if negb (prefixb pre inp) then PErr
      else match parse_parts parts (skipn (List.length pre) inp) ptm0 with
           | None => POutOfModel
           | Some None => PErr
           | Some (Some a) => match assemble a with Some ns => POk ns | None => PErr end
           end
  end.

(* strpntime returns t.UnixNano(): int64 arithmetic, wraps outside 1677-09-21 .. 2262-04-11 *)
Definition strpntime (inp f : bytes) : presult :=
  match strp_exact inp f with POk ns => POk (wrap64 ns) | r => r end.

(* strptime returns float64(t.Unix()) + float64(t.Nanosecond()) / 1e9: bits of the binary64 result *)
Definition bits_of_sf (f : spec_float) : Z :=
  match f with
  | S754_zero s => if s then 2 ^ 63 else 0
  | S754_infinity s => (if s then 2 ^ 63 else 0) + 2047 * 2 ^ 52
  | S754_nan => 2047 * 2 ^ 52 + 2 ^ 51
  | S754_finite s m e =>
      (if s then 2 ^ 63 else 0) +
      (if Zpos m <? 2 ^ 52 then Zpos m else (e + 1075) * 2 ^ 52 + (Zpos m - 2 ^ 52))
  end.
Definition sec_bits_of_ns (ns : Z) : Z :=
  bits_of_sf (SFadd prec emax (sf_of_Z (ns / 1000000000)) (SFdiv prec emax (sf_of_Z (ns mod 1000000000)) sf_1e9)).
Definition strptime_bits (inp f : bytes) : option Z :=
  match strp_exact inp f with POk ns => Some (sec_bits_of_ns ns) | _ => None end.

Definition ISO_FMT : bytes := B "%Y-%m-%dT%H:%M:%SZ".
Definition gmt2nsec (s : bytes) : presult := strpntime s ISO_FMT.
Definition gmt2sec_bits (s : bytes) : option Z := strptime_bits s ISO_FMT.
(* the instant the text denotes in whole seconds: t.Unix() *)
Definition gmt2sec_exact (s : bytes) : option Z :=
  match strp_exact s ISO_FMT with POk ns => Some (ns / 1000000000) | _ => None end.

(* ------------------------------------------------------------------ d/h/m/s (pkg/bifs/relative_time.go), int64 arithmetic *)
(* splitIntToDHMS = splitMagnitudeToDHMS on the magnitude taken as uint64 (repaired: -u on int64 overflowed for -2^63; the
   uint64 magnitude of an int64 is Z.abs, at most 2^63); Z.quot/Z.rem are Go's / and % *)
Definition split_dhms (u0 : Z) : Z * Z * Z * Z :=
  let neg := u0 <? 0 in
  let u := Z.abs u0 in
  let sign := if neg then -1 else 1 in
  let s := Z.rem u 60 in
  let u := Z.quot u 60 in
  if u =? 0 then (0, 0, 0, wrap64 (s * sign))
  else
    let m := Z.rem u 60 in
    let u := Z.quot u 60 in
    if u =? 0 then (0, 0, wrap64 (m * sign), s)
    else
      let h := Z.rem u 24 in
      let u := Z.quot u 24 in
      if u =? 0 then (0, wrap64 (h * sign), m, s)
      else (wrap64 (u * sign), h, m, s).

Definition sec2dhms (n : Z) : bytes :=
  let '(d, h, m, s) := split_dhms n in
  if negb (d =? 0) then dec d ++ "d" :: padz 2 h ++ "h" :: padz 2 m ++ "m" :: padz 2 s ++ ["s"]
  else if negb (h =? 0) then dec h ++ "h" :: padz 2 m ++ "m" :: padz 2 s ++ ["s"]
  else if negb (m =? 0) then dec m ++ "m" :: padz 2 s ++ ["s"]
  else dec s ++ ["s"].

Definition sec2hms (n : Z) : bytes :=
  let neg := n <? 0 in
  let u := Z.abs n in (* uint64 magnitude, splitMagnitudeToDHMS(magnitude, 1, ...) *)
  let '(d, h, m, s) := split_dhms u in
  let h := wrap64 (h + wrap64 (d * 24)) in
  (if neg then ["-"] else []) ++ padz 2 h ++ ":" :: padz 2 m ++ ":" :: padz 2 s.

(* fmt.Sscanf %d on a text without spaces: optional sign, then digits; value must fit int64 *)
Fixpoint span_digits (s : bytes) : bytes * bytes :=
  match s with
  | c :: t => if is_digit c then let '(a, b) := span_digits t in (c :: a, b) else ([], s)
  | [] => ([], [])
  end.

Definition scan_int (s : bytes) : option (Z * bytes) :=
  let '(neg, s1) := match s with
                    | c :: t => if Ascii.eqb c "-" then (true, t) else if Ascii.eqb c "+" then (false, t) else (false, s)
                    | [] => (false, s)
                    end in
  let '(ds, rest) := span_digits s1 in
  match ds with
  | [] => None
  | _ => let v := parse_acc 0 ds in
         let v := if neg then - v else v in
         if in64 v then Some (v, rest) else None
  end.

Fixpoint dhms_loop (fuel : nat) (s : bytes) (acc : Z) : option Z :=
  match s with
  | [] => Some acc
  | _ =>
      match fuel with
      | O => None
      | S f =>
          match scan_int s with
          | Some (n, u :: rest) =>
              if Ascii.eqb u "d" then dhms_loop f rest (wrap64 (acc + wrap64 (n * 86400)))
              else if Ascii.eqb u "h" then dhms_loop f rest (wrap64 (acc + wrap64 (n * 3600)))
              else if Ascii.eqb u "m" then dhms_loop f rest (wrap64 (acc + wrap64 (n * 60)))
              else if Ascii.eqb u "s" then dhms_loop f rest (wrap64 (acc + n))
              else None
          | _ => None
          end
      end
  end.

(* BIF_dhms2sec; None = error *)
Definition dhms2sec (s : bytes) : option Z :=
  match s with
  | [] => None
  | c :: t =>
      if Ascii.eqb c "-" then match dhms_loop (List.length s) t 0 with Some v => Some (wrap64 (- v)) | None => None end
      else dhms_loop (List.length s) s 0
  end.

(* BIF_hms2sec: Sscanf "%d:%d:%d" (or with a leading '-'); text after the third number is ignored *)
Definition scan3 (s : bytes) : option (Z * Z * Z) :=
  match scan_int s with
  | Some (h, c1 :: r1) =>
      if Ascii.eqb c1 ":" then
        match scan_int r1 with
        | Some (m, c2 :: r2) =>
            if Ascii.eqb c2 ":" then
              match scan_int r2 with
              | Some (sec, _) => Some (h, m, sec)
              | None => None
              end
            else None
        | _ => None
        end
      else None
  | _ => None
  end.

Definition hms_total (h m s : Z) : Z := wrap64 (s + wrap64 (wrap64 (m * 60) + wrap64 (wrap64 (h * 60) * 60))).

Definition hms2sec (s : bytes) : option Z :=
  match s with
  | [] => None
  | c :: t =>
      if Ascii.eqb c "-" then
        match scan3 t with Some (h, m, x) => Some (wrap64 (- hms_total h m x)) | None => None end
      else match scan3 s with Some (h, m, x) => Some (hms_total h m x) | None => None end
  end.

(* ------------------------------------------------------------------ zones: Go's Location.lookup and time.Date *)
Definition ALPHA : Z := - 2 ^ 63.
Definition OMEGA : Z := 2 ^ 63 - 1.

(* a zone table: offset in force before the first transition, then (transition instant, new offset) ascending *)
Record ztable := { z_base : Z; z_trans : list (Z * Z) }.

(* (offset, start, end) of the period containing t *)
Fixpoint lookup_from (cs co : Z) (tr : list (Z * Z)) (t : Z) : Z * Z * Z :=
  match tr with
  | [] => (co, cs, OMEGA)
  | (s, o) :: rest => if t <? s then (co, cs, s) else lookup_from s o rest t
  end.
Definition lookup (z : ztable) (t : Z) : Z * Z * Z := lookup_from ALPHA (z_base z) (z_trans z) t.
Definition offset_at (z : ztable) (t : Z) : Z := let '(o, _, _) := lookup z t in o.

(* wall-clock seconds (as if UTC) shown for the instant t *)
Definition to_local (z : ztable) (t : Z) : Z := t + offset_at z t.

(* time.Date(..., loc): the instant denoted by wall-clock seconds l *)
Definition of_local (z : ztable) (l : Z) : Z :=
  let '(o, s, e) := lookup z l in
  if o =? 0 then l
  else
    let utc := l - o in
    if (utc <? s) || (e <=? utc) then l - offset_at z utc else l - o.

(* sec2localtime / gmt2localtime text, localtime2gmt *)
Definition sec2localtime_int (z : ztable) (n nd : Z) : bytes := fmt_time true (to_local z n) 0 nd.
Definition LOCAL_FMT : bytes := B "%Y-%m-%d %H:%M:%S".
(* wall-clock text -> instant (ParseInLocation), whole seconds *)
Definition localtime2sec (z : ztable) (s : bytes) : option Z :=
  match strp_exact s LOCAL_FMT with
  | POk ns => Some (of_local z (ns / 1000000000))
  | _ => None
  end.
Definition gmt2localtime (z : ztable) (s : bytes) : option bytes :=
  match gmt2sec_exact s with Some t => Some (sec2localtime_int z t 0) | None => None end.
Definition localtime2gmt (z : ztable) (s : bytes) : option bytes :=
  match localtime2sec z s with Some t => Some (sec2gmt_int t 0) | None => None end.

(* well-formedness used by the round-trip theorem: |offset| <= K, every period at least D long *)
Definition ZK : Z := 57600.
Definition ZD : Z := 4 * 57600.
Fixpoint wf_from (cs co : Z) (tr : list (Z * Z)) : bool :=
  (Z.abs co <=? ZK) &&
  match tr with
  | [] => cs + ZD <=? OMEGA
  | (s, o) :: rest => (cs + ZD <=? s) && wf_from s o rest
  end.
Definition wf_ztable (z : ztable) : bool := wf_from ALPHA (z_base z) (z_trans z).
