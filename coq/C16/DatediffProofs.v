From Miller Require Import Base.Bytes C16.Model C16.CivilProofs C16.Datediff.
Open Scope Z_scope.

Lemma dnorm_civil z : let '(y, m, d) := civil_of_days z in dnorm y m d = z.
Proof.
  pose proof (days_of_civil_of_days z) as H. destruct (civil_of_days z) as [[y m] d]. destruct H as [Hv H].
  unfold dnorm. unfold valid_date in Hv. repeat (apply andb_true_iff in Hv; destruct Hv as [Hv ?]).
  repeat match goal with H : (_ <=? _) = true |- _ => apply Z.leb_le in H end.
  destruct (Z.eqb_spec m 0); [lia|exact H].
Qed.

Lemma datediff_core_d a b : datediff_core a b UD = b / 86400 - a / 86400.
Proof.
  unfold datediff_core, civil_days_between.
  pose proof (dnorm_civil (a / 86400)) as Ha. pose proof (dnorm_civil (b / 86400)) as Hb.
  destruct (civil_of_days (a / 86400)) as [[y1 m1] d1]. destruct (civil_of_days (b / 86400)) as [[y2 m2] d2]. lia.
Qed.

(* datediff(a, b, "d") is the difference of the civil day numbers, whatever the order of a and b *)
Lemma datediff_d a b : datediff a b UD = b / 86400 - a / 86400.
Proof. unfold datediff. destruct (b <? a); rewrite !datediff_core_d; lia. Qed.

Lemma datediff_d_dates y1 m1 d1 y2 m2 d2 s1 s2 :
  valid_date y1 m1 d1 = true -> valid_date y2 m2 d2 = true -> 0 <= s1 < 86400 -> 0 <= s2 < 86400 ->
  datediff (days_of_civil y1 m1 d1 * 86400 + s1) (days_of_civil y2 m2 d2 * 86400 + s2) UD
  = days_of_civil y2 m2 d2 - days_of_civil y1 m1 d1.
Proof.
  intros _ _ H1 H2. rewrite datediff_d.
  replace ((days_of_civil y2 m2 d2 * 86400 + s2) / 86400) with (days_of_civil y2 m2 d2) by (Z.div_mod_to_equations; lia).
  replace ((days_of_civil y1 m1 d1 * 86400 + s1) / 86400) with (days_of_civil y1 m1 d1) by (Z.div_mod_to_equations; lia).
  reflexivity.
Qed.

Lemma datediff_antisym a b u : a < b -> datediff b a u = - datediff a b u.
Proof.
  intros H. unfold datediff. destruct (Z.ltb_spec a b); [|lia]. destruct (Z.ltb_spec b a); [lia|]. reflexivity.
Qed.

(* months = 12 * years + (months ignoring years), and the latter is within 0..11 for ordered arguments *)
Lemma datediff_ym_decomposition a b : datediff a b UM = 12 * datediff a b UY + datediff a b UYM.
Proof.
  unfold datediff. destruct (b <? a); unfold datediff_core;
    destruct (civil_of_days _) as [[y1 m1] d1]; destruct (civil_of_days _) as [[y2 m2] d2]; lia.
Qed.
