From Miller Require Import Base.Record C16.Model C16.Verb gen.Gen_Zones.
Open Scope Z_scope.

Lemma put_same_value k v r : get k r = Some v -> put k v r = r.
Proof.
  induction r as [|[k' v'] r IH]; cbn [get put]; [discriminate|].
  destruct (beqb k k') eqn:E; intros H; [now inversion H|]. f_equal. now apply IH.
Qed.

(* a record all of whose named fields are non-numeric passes through the verb unchanged *)
Lemma sec2gmt_verb_nonnumeric classify nd names r :
  (forall k v, In k names -> get k r = Some v -> classify v = AOther) -> sec2gmt_verb classify nd names r = r.
Proof.
  revert r; induction names as [|k t IH]; intros r H; cbn [sec2gmt_verb]; [reflexivity|].
  destruct (get k r) as [v|] eqn:G.
  - rewrite (H k v (or_introl eq_refl) G). cbn [sec2gmt_unary]. rewrite (put_same_value _ _ _ G).
    apply IH. intros k' v' Hin. apply H. now right.
  - apply IH. intros k' v' Hin. apply H. now right.
Qed.

(* fields the verb does not name keep their value *)
Lemma sec2gmt_verb_bystander classify nd names r k :
  ~ In k names -> get k (sec2gmt_verb classify nd names r) = get k r.
Proof.
  revert r; induction names as [|k0 t IH]; intros r Hn; cbn [sec2gmt_verb]; [reflexivity|].
  rewrite IH by (intros Hin; apply Hn; now right).
  destruct (get k0 r) as [v|]; [|reflexivity].
  apply get_put_other. intros ->. apply Hn. now left.
Qed.

(* ---- computed instances (tests by vm_compute, labelled as such in Props.v) *)
Definition boundary_instants : list Z :=
  [0; 1; -1; 86399; 86400; -86400; 951782400; 951868799; 951868800; 1234567890; 2147483647; 2147483648; -2147483649;
   4102444800; -2208988800; -6857222400; 7258118400; -9223372036; 9223372036].

Definition gmt_roundtrip_ok (n : Z) : bool :=
  match gmt2sec_exact (sec2gmt_int n 0) with Some m => m =? n | None => false end.
Lemma gmt_roundtrip_instances :
  forallb gmt_roundtrip_ok (boundary_instants ++ [-62135596800; 253402300799; -62135596799; 253402300798]) = true.
Proof. Time vm_compute. reflexivity. Qed.

(* the float64 result float64(t.Unix()) + float64(t.Nanosecond())/1e9 equals float64(n) on these instants (tests) *)
Definition gmt_float_ok (n : Z) : bool :=
  match gmt2sec_bits (sec2gmt_int n 0) with Some b => b =? bits_of_sf (sf_of_Z n) | None => false end.
Lemma gmt_float_instances :
  forallb gmt_float_ok (boundary_instants ++ [-62135596800; 253402300799; -62135596799; 253402300798]) = true.
Proof. vm_compute. reflexivity. Qed.

Definition dhms_ints : list Z :=
  [0; 1; -1; 59; 60; 61; -59; -60; -61; 3599; 3600; 3601; -3600; 86399; 86400; 86401; -86400; -86401; 500000; -4000; -90000;
   9223372036854775807; -9223372036854775807; 4611686018427387904; -4611686018427387904].
Definition dhms_ok (n : Z) : bool :=
  match dhms2sec (sec2dhms n), hms2sec (sec2hms n) with Some a, Some b => (a =? n) && (b =? n) | _, _ => false end.
Lemma dhms_roundtrip_instances : forallb dhms_ok dhms_ints = true.
Proof. Time vm_compute. reflexivity. Qed.
(* the former witness of the finding dhms-roundtrip-minint64, now a regression instance (repaired: uint64 magnitude) *)
Lemma dhms_minint64 : dhms_ok MIN64 = true /\ sec2dhms MIN64 = B "-106751991167300d15h30m08s" /\ sec2hms MIN64 = B "-2562047788015215:30:08".
Proof. vm_compute. repeat split; reflexivity. Qed.

(* ---- regenerated zone tables *)
Lemma gen_zones_wf : forallb wf_ztable gen_zones = true.
Proof. Time vm_compute. reflexivity. Qed.

(* wall-clock text is unambiguous for instant t when no other offset of the table maps back into its own period *)
Definition offsets_of (z : ztable) : list Z := nodup Z.eq_dec (z_base z :: map snd (z_trans z)).
Definition unambiguous (z : ztable) (offs : list Z) (t : Z) : bool :=
  let l := to_local z t in
  Nat.eqb (List.length (filter (fun o => offset_at z (l - o) =? o) offs)) 1.
Definition roundtrip_at (z : ztable) (offs : list Z) (t : Z) : bool :=
  negb (unambiguous z offs t) || (of_local z (to_local z t) =? t).
Definition deltas : list Z := [-3601; -3600; -1; 0; 1; 1800; 3599; 3600; 7200].
Definition zone_roundtrip_ok (z : ztable) : bool :=
  let offs := offsets_of z in
  forallb (fun tr => forallb (fun d => roundtrip_at z offs (fst tr + d)) deltas) (z_trans z).
Lemma gen_zones_roundtrip_near_transitions : forallb zone_roundtrip_ok gen_zones = true.
Proof. Time vm_compute. reflexivity. Qed.
