(* C16 model, second part: the unary sec2gmt function on typed arguments and the sec2gmt verb
   (pkg/bifs/datetime.go BIF_sec2gmt_unary, pkg/transformers/sec2gmt.go).  Definitions only. *)
From Miller Require Import Base.Record C16.Model.
Open Scope Z_scope.

Inductive arg := AInt (n : Z) | AFloat (bits : Z) | AOther.

(* sec2gmt(x): numbers are formatted, everything else is returned as it is *)
Definition sec2gmt_unary (a : arg) (orig : bytes) (nd : Z) : bytes :=
  match a with
  | AInt n => sec2gmt_int n nd
  | AFloat b => sec2gmt_float b nd
  | AOther => orig
  end.

(* the verb: for each named field that is present, replace its value by sec2gmt of it *)
Fixpoint sec2gmt_verb (classify : bytes -> arg) (nd : Z) (names : list bytes) (r : record) : record :=
  match names with
  | [] => r
  | k :: t =>
      let r' := match get k r with
                | Some v => put k (sec2gmt_unary (classify v) v nd) r
                | None => r
                end in
      sec2gmt_verb classify nd t r'
  end.
