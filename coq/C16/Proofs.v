(* C16: main lemmas (instants <-> broken-down time, ranges) *)
From Miller Require Import Base.Bytes C16.Model C16.CivilProofs C16.TextProofs.
Open Scope char_scope.
Open Scope Z_scope.

Lemma sec_of_tm_of_sec t : sec_of_tm (tm_of_sec t) = t.
Proof.
  unfold tm_of_sec, sec_of_tm.
  pose proof (days_of_civil_of_days (t / 86400)) as H.
  destruct (civil_of_days (t / 86400)) as [[y m] d]. destruct H as [_ H]. cbn [tm_y tm_mo tm_d tm_h tm_mi tm_s].
  rewrite H. pose proof (Z.mod_pos_bound t 86400 ltac:(lia)).
  pose proof (Z.div_mod t 86400 ltac:(lia)). Z.div_mod_to_equations. lia.
Qed.

Lemma tm_of_sec_fields t :
  let x := tm_of_sec t in
  valid_date (tm_y x) (tm_mo x) (tm_d x) = true /\ 0 <= tm_h x < 24 /\ 0 <= tm_mi x < 60 /\ 0 <= tm_s x < 60.
Proof.
  unfold tm_of_sec.
  pose proof (days_of_civil_of_days (t / 86400)) as H.
  destruct (civil_of_days (t / 86400)) as [[y m] d]. destruct H as [H _]. cbn [tm_y tm_mo tm_d tm_h tm_mi tm_s].
  split; [exact H|]. pose proof (Z.mod_pos_bound t 86400 ltac:(lia)). Z.div_mod_to_equations. lia.
Qed.

Definition LO : Z := -62135596800.
Definition HI : Z := 253402300799.

Lemma tm_year_range t : LO <= t <= HI -> 1 <= tm_y (tm_of_sec t) <= 9999.
Proof.
  intros Ht. unfold tm_of_sec.
  pose proof (days_of_civil_of_days (t / 86400)) as H.
  destruct (civil_of_days (t / 86400)) as [[y m] d]. destruct H as [Hv H]. cbn [tm_y].
  assert (Hd : -719162 <= t / 86400 <= 2932896) by (unfold LO, HI in Ht; Z.div_mod_to_equations; lia).
  destruct (Z_le_gt_dec y 0) as [Hy|Hy]; [pose proof (days_year_lower y m d Hv Hy); lia|].
  destruct (Z_le_gt_dec 10000 y) as [Hy2|Hy2]; [pose proof (days_year_upper y m d Hv Hy2); lia|]. lia.
Qed.

Lemma sec2gmtdate_is_prefix n : exists rest, sec2gmt_int n 0 = sec2gmtdate_int n ++ "T" :: rest.
Proof. unfold sec2gmt_int, fmt_time, sec2gmtdate_int. cbn [clamp_nd Z.ltb Z.compare]. eexists. reflexivity. Qed.
