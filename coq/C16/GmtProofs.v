(* C16: gmt2sec (sec2gmt n) = n for every instant of the years 1..9999, with 0..9 decimals, and the same for the
   local-time text: instances of the general format law (FormatProofs.v) for the ISO-8601 / local formats, once the text
   printed by goTimeToFormattedTime is shown to be the rendering of those formats. *)
From Miller Require Import Base.Bytes C16.Model C16.Format C16.CivilProofs C16.TextProofs C16.Proofs C16.FormatProofs.
Open Scope char_scope.
Open Scope Z_scope.

Definition kdigit (k : nat) : ascii := digit (Z.of_nat k).
Definition time_parts (loc : bool) (k : nat) : list part :=
  match k with
  | O => if loc then LOCAL_PARTS else ISO_PARTS
  | _ => if loc then local_parts_k (kdigit k) else iso_parts_k (kdigit k)
  end.

Lemma field_frac k x ns : (1 <= k <= 9)%nat ->
  field (kdigit k) x ns = digs 2 (tm_s x) ++ "." :: digs k (ns / pow10 (9 - k)).
Proof.
  intros Hk. assert (C : (k = 1 \/ k = 2 \/ k = 3 \/ k = 4 \/ k = 5 \/ k = 6 \/ k = 7 \/ k = 8 \/ k = 9)%nat) by lia.
  destruct C as [->|[->|[->|[->|[->|[->|[->|[->| ->]]]]]]]]; reflexivity.
Qed.

Lemma fmt_time_render loc t ns k : LO <= t <= HI -> 0 <= ns < 1000000000 -> (k <= 9)%nat ->
  fmt_time loc t ns (Z.of_nat k) = render (time_parts loc k) (tm_of_sec t) ns.
Proof.
  intros Ht Hns Hk. pose proof (good_tm_of_sec t Ht) as G. destruct G as [Gy Gv Gh Gmi Gs].
  destruct (valid_date_bounds _ _ _ Gv) as (Hm & Hd & Hd31).
  unfold fmt_time. set (x := tm_of_sec t) in *.
  assert (Ec : clamp_nd (Z.of_nat k) = k).
  { unfold clamp_nd. destruct (Z.ltb_spec (Z.of_nat k) 0); [lia|]. destruct (Z.ltb_spec 9 (Z.of_nat k)); [lia|]. apply Nat2Z.id. }
  rewrite Ec. cbv zeta. unfold ymd_text, hms_text.
  rewrite !padz_nonneg by lia.
  rewrite (padnn_small 4) by (try change (10 ^ Z.of_nat 4) with 10000; lia).
  rewrite !(padnn_small 2) by (try change (10 ^ Z.of_nat 2) with 100; lia).
  destruct k as [|k'].
  - destruct loc; cbn [time_parts]; unfold LOCAL_PARTS, ISO_PARTS; cbn [render];
      change (field "Y" x ns) with (digs 4 (tm_y x)); change (field "m" x ns) with (digs 2 (tm_mo x));
      change (field "d" x ns) with (digs 2 (tm_d x)); change (field "H" x ns) with (digs 2 (tm_h x));
      change (field "M" x ns) with (digs 2 (tm_mi x)); change (field "S" x ns) with (digs 2 (tm_s x));
      repeat (rewrite <- app_assoc; cbn [app]); rewrite ?app_nil_r; reflexivity.
  - assert (Etp : time_parts loc (S k') = if loc then local_parts_k (kdigit (S k')) else iso_parts_k (kdigit (S k'))) by reflexivity.
    rewrite Etp. clear Etp Ec. assert (Hk1 : (1 <= S k' <= 9)%nat) by lia. revert Hk1. generalize (S k'). intros k Hk1.
    rewrite (padnn_small k) by (try (apply frac_value_range; lia); lia).
    destruct loc; unfold local_parts_k, iso_parts_k; cbn [render]; rewrite field_frac by lia;
      change (field "Y" x ns) with (digs 4 (tm_y x)); change (field "m" x ns) with (digs 2 (tm_mo x));
      change (field "d" x ns) with (digs 2 (tm_d x)); change (field "H" x ns) with (digs 2 (tm_h x));
      change (field "M" x ns) with (digs 2 (tm_mi x));
      repeat (rewrite <- app_assoc; cbn [app]); rewrite ?app_nil_r; reflexivity.
Qed.

Lemma time_parts_ok loc k : (k <= 9)%nat -> format_ok [] (time_parts loc k) = true.
Proof.
  intros Hk. assert (C : (k = 0 \/ k = 1 \/ k = 2 \/ k = 3 \/ k = 4 \/ k = 5 \/ k = 6 \/ k = 7 \/ k = 8 \/ k = 9)%nat) by lia.
  destruct loc; destruct C as [->|[->|[->|[->|[->|[->|[->|[->|[->| ->]]]]]]]]]; vm_compute; reflexivity.
Qed.

Lemma time_parts_fmt loc k : (k <= 9)%nat ->
  flat_parse (time_parts loc k) = (if loc then LOCAL_FMT else ISO_FMT) /\ last_frac (time_parts loc k) 0 = k.
Proof.
  intros Hk. assert (C : (k = 0 \/ k = 1 \/ k = 2 \/ k = 3 \/ k = 4 \/ k = 5 \/ k = 6 \/ k = 7 \/ k = 8 \/ k = 9)%nat) by lia.
  destruct loc; destruct C as [->|[->|[->|[->|[->|[->|[->|[->|[->| ->]]]]]]]]]; vm_compute; split; reflexivity.
Qed.

(* the text of sec2gmt / sec2localtime with k = 0..9 decimals is parsed back, by the format gmt2sec / localtime2sec use,
   to the instant truncated to k decimals *)
Theorem strp_exact_fmt_time loc t ns k : LO <= t <= HI -> 0 <= ns < 1000000000 -> (k <= 9)%nat ->
  strp_exact (fmt_time loc t ns (Z.of_nat k)) (if loc then LOCAL_FMT else ISO_FMT) = POk (t * 1000000000 + trunc_ns k ns).
Proof.
  intros Ht Hns Hk. rewrite (fmt_time_render loc t ns k Ht Hns Hk).
  pose proof (strptime_render [] (time_parts loc k) t ns (time_parts_ok loc k Hk) Ht Hns) as E. cbn [app] in E.
  destruct (time_parts_fmt loc k Hk) as [E1 E2]. rewrite E1, E2 in E. exact E.
Qed.

Theorem strp_exact_sec2gmt n : LO <= n <= HI -> strp_exact (sec2gmt_int n 0) ISO_FMT = POk (n * 1000000000).
Proof.
  intros Hn. pose proof (strp_exact_fmt_time false n 0 0 Hn ltac:(lia) ltac:(lia)) as E.
  change (Z.of_nat 0) with 0 in E. unfold sec2gmt_int. rewrite E. f_equal. rewrite trunc_ns_0 by lia. lia.
Qed.

Corollary gmt2sec_exact_sec2gmt n : LO <= n <= HI -> gmt2sec_exact (sec2gmt_int n 0) = Some n.
Proof.
  intros Hn. unfold gmt2sec_exact. rewrite (strp_exact_sec2gmt n Hn). f_equal. apply Z.div_mul. lia.
Qed.

(* gmt2nsec (int64 nanoseconds) is exact inside the nanosecond range *)
Lemma wrap64_id z : MIN64 <= z <= MAX64 -> wrap64 z = z.
Proof. unfold wrap64, MIN64, MAX64. intros H. rewrite Z.mod_small by lia. lia. Qed.

Corollary gmt2nsec_sec2gmt n :
  LO <= n <= HI -> MIN64 <= n * 1000000000 <= MAX64 -> gmt2nsec (sec2gmt_int n 0) = POk (n * 1000000000).
Proof.
  intros Hn Hr. unfold gmt2nsec, strpntime. rewrite (strp_exact_sec2gmt n Hn). now rewrite wrap64_id.
Qed.

(* nsec2gmt with k decimals parsed back by gmt2nsec: the nanoseconds truncated to k decimals *)
Lemma trunc_ns_range k ns : 0 <= ns < 1000000000 -> 0 <= trunc_ns k ns <= ns.
Proof.
  intros H. unfold trunc_ns. pose proof (pow10_pos (9 - k)) as P.
  pose proof (Z.mul_div_le ns (pow10 (9 - k)) P). pose proof (Z.div_pos ns (pow10 (9 - k)) ltac:(lia) P). nia.
Qed.

Theorem gmt2nsec_nsec2gmt t ns k :
  LO <= t <= HI -> 0 <= ns < 1000000000 -> (k <= 9)%nat -> MIN64 <= t * 1000000000 -> t * 1000000000 + ns <= MAX64 ->
  gmt2nsec (nsec2gmt (t * 1000000000 + ns) (Z.of_nat k)) = POk (t * 1000000000 + trunc_ns k ns).
Proof.
  intros Ht Hns Hk H1 H2. unfold nsec2gmt.
  replace ((t * 1000000000 + ns) / 1000000000) with t by (symmetry; rewrite Z.add_comm, Z.div_add by lia; rewrite Z.div_small by lia; lia).
  replace ((t * 1000000000 + ns) mod 1000000000) with ns by (symmetry; rewrite Z.add_comm, Z.mod_add by lia; apply Z.mod_small; lia).
  unfold gmt2nsec, strpntime. rewrite (strp_exact_fmt_time false t ns k Ht Hns Hk).
  pose proof (trunc_ns_range k ns Hns). rewrite wrap64_id by lia. reflexivity.
Qed.
