(* C16: gmt2sec (sec2gmt n) = n for every instant of the years 1..9999: the ISO-8601 text printed by
   goTimeToFormattedTime is parsed back by the strptime model (pbnjay parts loop + time.Parse field rules)
   to exactly the same instant. *)
From Miller Require Import Base.Bytes C16.Model C16.CivilProofs C16.TextProofs C16.Proofs.
Open Scope char_scope.
Open Scope Z_scope.

Ltac eval_eqb :=
  repeat match goal with
         | |- context [Ascii.eqb ?a ?b] =>
             let r := eval vm_compute in (Ascii.eqb a b) in change (Ascii.eqb a b) with r
         end.

Lemma find_sub_digits1 l0 ds rest :
  forallb is_digit ds = true -> is_digit l0 = false -> find_sub [l0] (ds ++ l0 :: rest) = Some (ds, rest).
Proof. intros Hd Hl. exact (find_sub_digits l0 [] ds rest Hd Hl). Qed.

Lemma parse_step c l0 w ps ds after acc acc' :
  code_width c = Some w -> forallb is_digit ds = true -> is_digit l0 = false ->
  set_field c ds w acc = Some acc' ->
  parse_parts ((c, [l0]) :: ps) (ds ++ l0 :: after) acc = parse_parts ps after acc'.
Proof.
  intros Hw Hd Hl Hs. cbn [parse_parts]. rewrite Hw. rewrite (find_sub_digits1 l0 ds after Hd Hl). rewrite Hs. reflexivity.
Qed.

Lemma parse_digits_digs w v : (1 <= w)%nat -> 0 <= v < 10 ^ Z.of_nat w -> parse_digits (digs w v) = Some v.
Proof.
  intros Hw Hv. unfold parse_digits. rewrite digs_digits, parse_digs by exact Hv.
  destruct (digs w v) eqn:E; [|reflexivity].
  apply (f_equal (@List.length ascii)) in E. rewrite digs_length in E. cbn [List.length] in E. lia.
Qed.

Lemma set_field_digs c w v acc :
  (1 <= w)%nat -> 0 <= v < 10 ^ Z.of_nat w -> set_field c (digs w v) w acc = upd c v 0 acc.
Proof.
  intros Hw Hv. unfold set_field, zero_pad_left. rewrite digs_length, Nat.leb_refl.
  rewrite firstn_all2 by (rewrite digs_length; lia). rewrite skipn_all2 by (rewrite digs_length; lia).
  rewrite digs_length, Nat.eqb_refl. cbn [negb]. rewrite parse_digits_digs by assumption.
  destruct (Ascii.eqb c "S"); reflexivity.
Qed.

Definition ISO_PARTS : list (ascii * bytes) :=
  [("Y", ["-"]); ("m", ["-"]); ("d", ["T"]); ("H", [":"]); ("M", [":"]); ("S", ["Z"])].

Lemma iso_fmt_parts :
  lit_until_pct ISO_FMT = ([], ISO_FMT) /\ fmt_parts (S (List.length ISO_FMT)) ISO_FMT = Some ISO_PARTS
  /\ parts_in_model ISO_PARTS = true.
Proof. vm_compute. repeat split; reflexivity. Qed.

Definition iso_text (y mo d h mi s : Z) : bytes :=
  digs 4 y ++ "-" :: digs 2 mo ++ "-" :: digs 2 d ++ "T" :: digs 2 h ++ ":" :: digs 2 mi ++ ":" :: digs 2 s ++ ["Z"].

Lemma pow4 : 10 ^ Z.of_nat 4 = 10000. Proof. reflexivity. Qed.
Lemma pow2 : 10 ^ Z.of_nat 2 = 100. Proof. reflexivity. Qed.

Lemma parse_iso y mo d h mi s :
  0 <= y < 10000 -> 1 <= mo <= 12 -> 0 <= d < 100 -> 0 <= h < 24 -> 0 <= mi < 60 -> 0 <= s < 60 ->
  parse_parts ISO_PARTS (iso_text y mo d h mi s) ptm0 =
  Some (Some {| p_y := Some y; p_mo := Some mo; p_d := Some d; p_h := h; p_mi := mi; p_s := s; p_ns := 0; p_j := None |}).
Proof.
  intros Hy Hmo Hd Hh Hmi Hs. unfold ISO_PARTS, iso_text.
  assert (Ry : 0 <= y < 10 ^ Z.of_nat 4) by (rewrite pow4; lia).
  assert (R2 : forall v, 0 <= v < 100 -> 0 <= v < 10 ^ Z.of_nat 2) by (intros; rewrite pow2; lia).
  (* Y *)
  erewrite (parse_step "Y" "-" 4); [| reflexivity | apply digs_digits | reflexivity |
    rewrite set_field_digs by (try exact Ry; lia); unfold upd; eval_eqb; cbn [p_y p_mo p_d p_h p_mi p_s p_ns p_j ptm0]; reflexivity].
  (* m *)
  erewrite (parse_step "m" "-" 2); [| reflexivity | apply digs_digits | reflexivity |
    rewrite set_field_digs by (try (apply R2; lia); lia); unfold upd; eval_eqb;
    replace ((1 <=? mo) && (mo <=? 12)) with true by (symmetry; apply andb_true_iff; split; apply Z.leb_le; lia);
    cbn [p_y p_mo p_d p_h p_mi p_s p_ns p_j]; reflexivity].
  (* d *)
  erewrite (parse_step "d" "T" 2); [| reflexivity | apply digs_digits | reflexivity |
    rewrite set_field_digs by (try (apply R2; lia); lia); unfold upd; eval_eqb;
    cbn [p_y p_mo p_d p_h p_mi p_s p_ns p_j]; reflexivity].
  (* H *)
  erewrite (parse_step "H" ":" 2); [| reflexivity | apply digs_digits | reflexivity |
    rewrite set_field_digs by (try (apply R2; lia); lia); unfold upd; eval_eqb;
    replace (h <? 24) with true by (symmetry; apply Z.ltb_lt; lia);
    cbn [p_y p_mo p_d p_h p_mi p_s p_ns p_j]; reflexivity].
  (* M *)
  erewrite (parse_step "M" ":" 2); [| reflexivity | apply digs_digits | reflexivity |
    rewrite set_field_digs by (try (apply R2; lia); lia); unfold upd; eval_eqb;
    replace (mi <? 60) with true by (symmetry; apply Z.ltb_lt; lia);
    cbn [p_y p_mo p_d p_h p_mi p_s p_ns p_j]; reflexivity].
  (* S *)
  erewrite (parse_step "S" "Z" 2); [| reflexivity | apply digs_digits | reflexivity |
    rewrite set_field_digs by (try (apply R2; lia); lia); unfold upd; eval_eqb;
    replace (s <? 60) with true by (symmetry; apply Z.ltb_lt; lia);
    cbn [p_y p_mo p_d p_h p_mi p_s p_ns p_j]; reflexivity].
  reflexivity.
Qed.

Lemma strp_exact_iso y mo d h mi s :
  1 <= y <= 9999 -> valid_date y mo d = true -> 0 <= h < 24 -> 0 <= mi < 60 -> 0 <= s < 60 ->
  strp_exact (iso_text y mo d h mi s) ISO_FMT =
  POk ((days_of_civil y mo d * 86400 + h * 3600 + mi * 60 + s) * 1000000000).
Proof.
  intros Hy Hv Hh Hmi Hs.
  assert (Hmd : 1 <= mo <= 12 /\ 1 <= d <= days_in_month y mo /\ d <= 31).
  { unfold valid_date in Hv. repeat (apply andb_true_iff in Hv; destruct Hv as [Hv ?]).
    repeat match goal with H : (_ <=? _) = true |- _ => apply Z.leb_le in H end.
    split; [lia|]. split; [lia|]. unfold days_in_month in *.
    destruct (mo =? 2); [destruct (is_leap y); lia|]. destruct ((mo =? 4) || (mo =? 6) || (mo =? 9) || (mo =? 11)); lia. }
  destruct Hmd as (Hmo & Hd & Hd31).
  unfold strp_exact. destruct iso_fmt_parts as (E1 & E2 & E3). rewrite E1, E2, E3. cbn [negb].
  cbn [prefixb List.length skipn].
  rewrite parse_iso by lia.
  unfold assemble. cbn [p_y p_mo p_d p_h p_mi p_s p_ns p_j].
  replace ((d <? 1) || (days_in_month y mo <? d)) with false.
  - cbn [negb]. cbv beta iota. f_equal. lia.
  - symmetry. apply orb_false_iff. split; apply Z.ltb_ge; lia.
Qed.

Lemma sec2gmt_int_text n :
  LO <= n <= HI ->
  let x := tm_of_sec n in
  sec2gmt_int n 0 = iso_text (tm_y x) (tm_mo x) (tm_d x) (tm_h x) (tm_mi x) (tm_s x).
Proof.
  intros Hn x. pose proof (tm_year_range n Hn) as Hy. pose proof (tm_of_sec_fields n) as Hf. cbv zeta in Hf.
  fold x in Hy, Hf. destruct Hf as (Hv & Hh & Hmi & Hs).
  assert (Hmd : 1 <= tm_mo x <= 12 /\ 1 <= tm_d x <= 31).
  { unfold valid_date in Hv. repeat (apply andb_true_iff in Hv; destruct Hv as [Hv ?]).
    repeat match goal with H : (_ <=? _) = true |- _ => apply Z.leb_le in H end.
    split; [lia|]. split; [lia|]. unfold days_in_month in *.
    destruct (tm_mo x =? 2); [destruct (is_leap (tm_y x)); lia|].
    destruct ((tm_mo x =? 4) || (tm_mo x =? 6) || (tm_mo x =? 9) || (tm_mo x =? 11)); lia. }
  unfold sec2gmt_int, fmt_time. fold x. change (clamp_nd 0) with O. cbv iota zeta.
  unfold ymd_text, hms_text, iso_text.
  rewrite !padz_nonneg by lia.
  rewrite (padnn_small 4) by (try rewrite pow4; lia).
  rewrite !(padnn_small 2) by (try rewrite pow2; lia).
  cbn [app]. rewrite <- !app_assoc. cbn [app]. rewrite <- !app_assoc. cbn [app]. reflexivity.
Qed.

Theorem strp_exact_sec2gmt n : LO <= n <= HI -> strp_exact (sec2gmt_int n 0) ISO_FMT = POk (n * 1000000000).
Proof.
  intros Hn. rewrite (sec2gmt_int_text n Hn). cbv zeta.
  pose proof (tm_year_range n Hn) as Hy. pose proof (tm_of_sec_fields n) as Hf. cbv zeta in Hf.
  destruct Hf as (Hv & Hh & Hmi & Hs).
  rewrite strp_exact_iso by assumption.
  f_equal. pose proof (sec_of_tm_of_sec n) as E. unfold sec_of_tm in E. rewrite E. reflexivity.
Qed.

Corollary gmt2sec_exact_sec2gmt n : LO <= n <= HI -> gmt2sec_exact (sec2gmt_int n 0) = Some n.
Proof.
  intros Hn. unfold gmt2sec_exact. rewrite (strp_exact_sec2gmt n Hn). f_equal. apply Z.div_mul. lia.
Qed.

(* gmt2nsec (int64 nanoseconds) is exact inside the nanosecond range *)
Lemma wrap64_id z : MIN64 <= z <= MAX64 -> wrap64 z = z.
Proof. unfold wrap64, MIN64, MAX64. intros H. rewrite Z.mod_small by lia. lia. Qed.

Corollary gmt2nsec_sec2gmt n :
  LO <= n <= HI -> MIN64 <= n * 1000000000 <= MAX64 -> gmt2nsec (sec2gmt_int n 0) = POk (n * 1000000000).
Proof.
  intros Hn Hr. unfold gmt2nsec, strpntime. rewrite (strp_exact_sec2gmt n Hn). now rewrite wrap64_id.
Qed.
