(* C16: the local-time round trip at ALL instants, overlap hours included (general lemma over any well-formed
   transition table, every reading -- not per regenerated table).  Go's time.Date resolution (of_local) applied to the
   wall-clock reading of ANY instant t returns an instant r that shows the SAME wall-clock reading; hence r = t
   whenever the reading is unambiguous, and in an overlap r is t or the other instant with that reading:
   r = t + (offset_at t - offset_at r). *)
From Miller Require Import Base.Bytes C16.Model C16.Format C16.CivilProofs C16.TextProofs C16.Proofs C16.FormatProofs C16.GmtProofs C16.ZoneProofs.
Open Scope Z_scope.

(* a period of a well-formed table that contains u IS the period lookup finds *)
Lemma lookup_unique z p u :
  wf_ztable z = true -> In p (zones z) -> zs p <= u < ze p -> ALPHA <= u -> u < OMEGA -> lookup z u = p.
Proof.
  intros Hwf Hin Hr H1 H2. unfold wf_ztable in Hwf.
  pose proof (zones_sep _ _ _ Hwf) as S. fold (zones z) in S.
  pose proof (lookup_from_in (z_trans z) ALPHA (z_base z) u H1 H2) as L. cbv zeta in L.
  fold (lookup z u) in L. fold (zones z) in L. destruct L as [Iq Rq].
  destruct (S (lookup z u) p Iq Hin) as [E|E]; [exact E|]. unfold ZD, ZK in *. lia.
Qed.

Theorem to_local_of_local_to_local z t :
  wf_ztable z = true -> ALPHA + ZD <= t -> t <= OMEGA - ZD ->
  to_local z (of_local z (to_local z t)) = to_local z t.
Proof.
  intros Hwf Hlo Hhi. pose proof Hwf as Hwf0. unfold wf_ztable in Hwf.
  pose proof (zones_facts _ _ _ Hwf) as F. pose proof (zones_sep _ _ _ Hwf) as S. fold (zones z) in F, S.
  pose proof (fun p u => lookup_unique z p u Hwf0) as U.
  unfold ZD, ZK in *.
  pose proof (lookup_from_in (z_trans z) ALPHA (z_base z) t ltac:(lia) ltac:(lia)) as Li. cbv zeta in Li.
  fold (lookup z t) in Li. fold (zones z) in Li. destruct Li as [Ii Ri].
  pose proof (F _ Ii) as (_ & Fi2 & Fi3 & _).
  unfold to_local at 2 3. rewrite offset_at_zo.
  set (zi := lookup z t) in *. set (L := t + zo zi) in *.
  pose proof (lookup_from_in (z_trans z) ALPHA (z_base z) L ltac:(unfold L; lia) ltac:(unfold L; lia)) as Lj. cbv zeta in Lj.
  fold (lookup z L) in Lj. fold (zones z) in Lj. destruct Lj as [Ij Rj].
  pose proof (F _ Ij) as (_ & Fj2 & Fj3 & _).
  unfold of_local. set (zj := lookup z L) in *.
  assert (Ej : zj = (zo zj, zs zj, ze zj)) by (destruct zj as [[? ?] ?]; reflexivity).
  rewrite Ej. cbv beta iota.
  destruct (Z.eqb_spec (zo zj) 0) as [Z0|Z0].
  { unfold to_local. rewrite offset_at_zo. fold zj. lia. }
  set (utc := L - zo zj).
  pose proof (lookup_from_in (z_trans z) ALPHA (z_base z) utc ltac:(unfold utc, L; lia) ltac:(unfold utc, L; lia)) as Lk; cbv zeta in Lk.
  fold (lookup z utc) in Lk; fold (zones z) in Lk; destruct Lk as [Ik Rk].
  pose proof (F _ Ik) as (_ & Fk2 & Fk3 & _).
  destruct (Z.ltb_spec utc (zs zj)) as [B1|B1]; [|destruct (Z.leb_spec (ze zj) utc) as [B2|B2]]; cbn [orb].
  3: { (* utc inside the period of L: the result utc is shown under that offset *)
       unfold to_local. rewrite offset_at_zo. rewrite (U zj utc Ij ltac:(lia) ltac:(unfold utc, L; lia) ltac:(unfold utc, L; lia)).
       unfold utc. lia. }
  all: rewrite offset_at_zo; set (zk := lookup z utc) in *;
    unfold to_local; rewrite offset_at_zo;
    assert (Hr : zs zk <= L - zo zk < ze zk);
    [ pose proof (S zi zj Ii Ij) as Sij; pose proof (S zi zk Ii Ik) as Sik; pose proof (S zj zk Ij Ik) as Sjk;
      assert (Eik : zi = zk -> zo zk = zo zi /\ zs zk = zs zi /\ ze zk = ze zi) by (intros H; rewrite H; auto);
      assert (Eij : zi = zj -> zo zj = zo zi /\ zs zj = zs zi /\ ze zj = ze zi) by (intros H; rewrite H; auto);
      assert (Ejk : zj = zk -> zs zk = zs zj /\ ze zk = ze zj) by (intros H; rewrite H; auto);
      unfold utc, L in *; clearbody zi zj zk;
      destruct Sij as [Sij|Sij]; [apply Eij in Sij; lia|];
      destruct Sjk as [Sjk|Sjk]; [apply Ejk in Sjk; lia|];
      destruct Sik as [Sik|Sik]; [apply Eik in Sik; lia|]; lia
    | rewrite (U zk (L - zo zk) Ik Hr ltac:(unfold L; lia) ltac:(unfold L; lia)); lia ].
Qed.

(* the instant returned for the reading of t is t itself or the other instant of the overlap with the same reading *)
Corollary of_local_to_local_all z t :
  wf_ztable z = true -> ALPHA + ZD <= t -> t <= OMEGA - ZD ->
  let r := of_local z (to_local z t) in r = t + (offset_at z t - offset_at z r).
Proof. intros Hwf H1 H2 r. pose proof (to_local_of_local_to_local z t Hwf H1 H2) as E. fold r in E. unfold to_local in E. lia. Qed.

(* ... through the text, k = 0..9 decimals: localtime2sec(sec2localtime(t, k, zone), zone) succeeds at EVERY instant and returns an
   instant that prints the same local text *)
Theorem localtime2sec_sec2localtime_all z t ns k :
  wf_ztable z = true -> ALPHA + ZD <= t -> t <= OMEGA - ZD -> LO <= to_local z t <= HI ->
  0 <= ns < 1000000000 -> (k <= 9)%nat ->
  exists r, localtime2sec z (fmt_time true (to_local z t) ns (Z.of_nat k)) = Some r /\
            to_local z r = to_local z t /\ r = t + (offset_at z t - offset_at z r) /\
            sec2localtime_int z r 0 = sec2localtime_int z t 0.
Proof.
  intros Hwf H1 H2 HL Hns Hk. exists (of_local z (to_local z t)). unfold localtime2sec.
  rewrite (strp_exact_fmt_time true (to_local z t) ns k HL Hns Hk).
  pose proof (trunc_ns_range k ns Hns) as R.
  replace ((to_local z t * 1000000000 + trunc_ns k ns) / 1000000000) with (to_local z t)
    by (symmetry; rewrite Z.add_comm, Z.div_add by lia; rewrite Z.div_small by lia; lia).
  pose proof (to_local_of_local_to_local z t Hwf H1 H2) as E.
  repeat split; [exact E | exact (of_local_to_local_all z t Hwf H1 H2) | unfold sec2localtime_int; now rewrite E].
Qed.

(* non-vacuity: a table with one overlap hour (offset 7200 -> 3600 at instant 10^6); the instant half an hour before the
   transition is mapped to the instant half an hour after it (same wall clock), the latter is a fixed point *)
Definition overlap_demo : ztable := {| z_base := 7200; z_trans := [(1000000, 3600)] |}.
Example overlap_demo_facts :
  wf_ztable overlap_demo = true /\
  of_local overlap_demo (to_local overlap_demo 998200) = 1001800 /\
  to_local overlap_demo 1001800 = to_local overlap_demo 998200 /\
  of_local overlap_demo (to_local overlap_demo 1001800) = 1001800 /\
  of_local overlap_demo (to_local overlap_demo 990000) = 990000.
Proof. vm_compute. repeat split; reflexivity. Qed.

(* ------------------------------------------------------------------ EVERY reading (also readings no instant shows: gaps).
   time.Date's answer r for a wall-clock reading l is always l minus an offset of the table; it is a genuine preimage
   (to_local r = l) whenever ANY instant shows l; otherwise no instant shows l (a gap) and r shows l shifted by the
   difference of two offsets of the table. *)
Theorem of_local_dichotomy z l :
  wf_ztable z = true ->
  let r := of_local z l in
  (exists u, r = l - offset_at z u /\ to_local z r = l + (offset_at z r - offset_at z u)) /\
  (to_local z r = l \/ forall t, ALPHA + ZD <= t -> t <= OMEGA - ZD -> to_local z t <> l).
Proof.
  intros Hwf r. split.
  - assert (X : exists u, r = l - offset_at z u).
    { unfold r, of_local. pose proof (offset_at_zo z l) as E. destruct (lookup z l) as [[o s] e]. unfold zo in E. cbn [fst] in E.
      destruct (Z.eqb_spec o 0) as [Z0|Z0]; [exists l; lia|].
      destruct ((l - o <? s) || (e <=? l - o)); [exists (l - o); reflexivity | exists l; lia]. }
    destruct X as [u Hu]. exists u. split; [exact Hu|]. unfold to_local. lia.
  - destruct (Z.eq_dec (to_local z r) l) as [E|N]; [now left|right].
    intros t H1 H2 Ht. apply N. unfold r. rewrite <- Ht. now apply to_local_of_local_to_local.
Qed.

(* non-vacuity for the gap side: a table with one skipped hour (offset 3600 -> 7200 at 10^6); the reading 10^6 + 5400 is shown
   by no instant of a window around the transition and is resolved to an instant showing the reading shifted by one hour *)
Definition gap_demo : ztable := {| z_base := 3600; z_trans := [(1000000, 7200)] |}.
Example gap_demo_facts :
  wf_ztable gap_demo = true /\
  of_local gap_demo 1005400 = 1005400 - 3600 /\ to_local gap_demo (of_local gap_demo 1005400) = 1005400 + 3600 /\
  to_local gap_demo 999999 = 1003599 /\ to_local gap_demo 1000000 = 1007200.
Proof. vm_compute. repeat split; reflexivity. Qed.
