(* C16: lemmas about decimal rendering / parsing and literal search *)
From Miller Require Import Base.Bytes C16.Model.
Open Scope char_scope.
Open Scope Z_scope.

Lemma digit_cases k : 0 <= k <= 9 -> k = 0 \/ k = 1 \/ k = 2 \/ k = 3 \/ k = 4 \/ k = 5 \/ k = 6 \/ k = 7 \/ k = 8 \/ k = 9.
Proof. lia. Qed.

Lemma is_digit_digit k : 0 <= k <= 9 -> is_digit (digit k) = true.
Proof. intros H. destruct (digit_cases k H) as [->|[->|[->|[->|[->|[->|[->|[->|[->| ->]]]]]]]]]; reflexivity. Qed.

Lemma dval_digit k : 0 <= k <= 9 -> dval (digit k) = k.
Proof. intros H. destruct (digit_cases k H) as [->|[->|[->|[->|[->|[->|[->|[->|[->| ->]]]]]]]]]; reflexivity. Qed.

Lemma digs_length w n : List.length (digs w n) = w.
Proof. revert n; induction w as [|w IH]; intros n; cbn [digs]; [reflexivity|]. rewrite app_length, IH. cbn. lia. Qed.

Lemma digs_digits w n : forallb is_digit (digs w n) = true.
Proof.
  revert n; induction w as [|w IH]; intros n; cbn [digs]; [reflexivity|].
  rewrite forallb_app, IH. cbn [forallb andb]. rewrite is_digit_digit; [reflexivity|].
  pose proof (Z.mod_pos_bound n 10 ltac:(lia)). lia.
Qed.

Lemma parse_acc_app a x y : parse_acc a (x ++ y) = parse_acc (parse_acc a x) y.
Proof. revert a; induction x as [|c x IH]; intros a; cbn [parse_acc app]; [reflexivity|apply IH]. Qed.

Lemma parse_acc_digs w : forall n a, 0 <= n -> parse_acc a (digs w n) = a * 10 ^ Z.of_nat w + n mod 10 ^ Z.of_nat w.
Proof.
  induction w as [|w IH]; intros n a Hn.
  - cbn [digs parse_acc]. change (Z.of_nat 0) with 0. rewrite Z.pow_0_r, Z.mod_1_r. lia.
  - cbn [digs]. rewrite parse_acc_app. cbn [parse_acc].
    rewrite IH by (apply Z.div_pos; lia).
    rewrite dval_digit by (pose proof (Z.mod_pos_bound n 10 ltac:(lia)); lia).
    rewrite Nat2Z.inj_succ, Z.pow_succ_r by lia.
    set (P := 10 ^ Z.of_nat w). assert (HP : 0 < P) by (apply Z.pow_pos_nonneg; lia).
    assert (E : n mod (10 * P) = 10 * ((n / 10) mod P) + n mod 10).
    { rewrite Z.rem_mul_r by lia. lia. }
    rewrite E. lia.
Qed.

Lemma parse_digs w n : 0 <= n < 10 ^ Z.of_nat w -> parse_acc 0 (digs w n) = n.
Proof. intros H. rewrite parse_acc_digs by lia. rewrite Z.mod_small by lia. lia. Qed.

Lemma ndig_pos fuel n : (1 <= ndig fuel n)%nat.
Proof. destruct fuel; cbn [ndig]; [lia|]. destruct (n <? 10); lia. Qed.

Lemma ndig_bound fuel : forall n, 0 <= n < 10 ^ Z.of_nat fuel -> n < 10 ^ Z.of_nat (ndig fuel n).
Proof.
  induction fuel as [|f IH]; intros n Hn.
  - cbn [ndig]. change (Z.of_nat 0) with 0 in Hn. rewrite Z.pow_0_r in Hn. change (10 ^ Z.of_nat 1) with 10. lia.
  - cbn [ndig]. destruct (n <? 10) eqn:E.
    + apply Z.ltb_lt in E. change (10 ^ Z.of_nat 1) with 10. lia.
    + apply Z.ltb_ge in E. rewrite Nat2Z.inj_succ, Z.pow_succ_r in * by lia.
      assert (H1 : 0 <= n / 10 < 10 ^ Z.of_nat f) by (split; [apply Z.div_pos; lia | apply Z.div_lt_upper_bound; lia]).
      specialize (IH _ H1). pose proof (Z.div_mod n 10 ltac:(lia)). pose proof (Z.mod_pos_bound n 10 ltac:(lia)). lia.
Qed.

Lemma ndig_le fuel : forall n w, 0 <= n < 10 ^ Z.of_nat w -> (1 <= w)%nat -> (ndig fuel n <= w)%nat.
Proof.
  induction fuel as [|f IH]; intros n w Hn Hw; cbn [ndig]; [lia|].
  destruct (n <? 10) eqn:E; [lia|]. apply Z.ltb_ge in E.
  destruct w as [|w]; [lia|]. rewrite Nat2Z.inj_succ, Z.pow_succ_r in Hn by lia.
  destruct w as [|w]; [exfalso; change (Z.of_nat 0) with 0 in Hn; rewrite Z.pow_0_r in Hn; lia|].
  apply le_n_S. apply IH; [|lia].
  split; [apply Z.div_pos; lia | apply Z.div_lt_upper_bound; lia].
Qed.

Definition BIG : Z := 10 ^ Z.of_nat FUEL.

Lemma dec_nn_digits n : forallb is_digit (dec_nn n) = true.
Proof. apply digs_digits. Qed.

Lemma dec_nn_value n : 0 <= n < BIG -> parse_acc 0 (dec_nn n) = n.
Proof. intros H. unfold dec_nn. apply parse_digs. split; [lia|]. apply ndig_bound. exact H. Qed.

Lemma dec_nn_nonempty n : dec_nn n <> [].
Proof.
  unfold dec_nn. intros H. apply (f_equal (@List.length ascii)) in H. rewrite digs_length in H.
  pose proof (ndig_pos FUEL n). cbn [List.length] in H. lia.
Qed.

Lemma padnn_small w n : 0 <= n < 10 ^ Z.of_nat w -> (1 <= w)%nat -> padnn w n = digs w n.
Proof.
  intros H Hw. unfold padnn. destruct (Nat.leb w (ndig FUEL n)) eqn:E; [|reflexivity].
  apply Nat.leb_le in E. pose proof (ndig_le FUEL n w H Hw). unfold dec_nn. replace (ndig FUEL n) with w by lia. reflexivity.
Qed.

Lemma padnn_digits w n : forallb is_digit (padnn w n) = true.
Proof. unfold padnn. destruct (Nat.leb w (ndig FUEL n)); [apply dec_nn_digits | apply digs_digits]. Qed.

Lemma padnn_value w n : 0 <= n < BIG -> parse_acc 0 (padnn w n) = n.
Proof.
  intros H. unfold padnn. destruct (Nat.leb w (ndig FUEL n)) eqn:E; [now apply dec_nn_value|].
  apply Nat.leb_gt in E. apply parse_digs. split; [lia|].
  pose proof (ndig_bound FUEL n H) as Hb.
  eapply Z.lt_le_trans; [exact Hb|]. apply Z.pow_le_mono_r; lia.
Qed.

Lemma padnn_nonempty w n : padnn w n <> [].
Proof.
  unfold padnn. destruct (Nat.leb w (ndig FUEL n)) eqn:E; [apply dec_nn_nonempty|].
  apply Nat.leb_gt in E. intros H. apply (f_equal (@List.length ascii)) in H. rewrite digs_length in H.
  pose proof (ndig_pos FUEL n). cbn [List.length] in H. lia.
Qed.

Lemma padz_nonneg w n : 0 <= n -> padz w n = padnn w n.
Proof. intros H. unfold padz. destruct (n <? 0) eqn:E; [apply Z.ltb_lt in E; lia|reflexivity]. Qed.

(* ---- literal search *)
Lemma prefixb_app p s : prefixb p (p ++ s) = true.
Proof. induction p as [|c p IH]; cbn; [reflexivity|]. now rewrite Ascii.eqb_refl, IH. Qed.

Lemma skipn_app_length {A} (p s : list A) : skipn (List.length p) (p ++ s) = s.
Proof. induction p; cbn; auto. Qed.

Lemma find_sub_digits l0 lt ds rest :
  forallb is_digit ds = true -> is_digit l0 = false ->
  find_sub (l0 :: lt) (ds ++ (l0 :: lt) ++ rest) = Some (ds, rest).
Proof.
  intros Hd Hl. change ((l0 :: lt) ++ rest) with (l0 :: lt ++ rest). induction ds as [|c ds IH].
  - cbn [app]. cbn [find_sub].
    change (l0 :: lt ++ rest) with ((l0 :: lt) ++ rest). rewrite prefixb_app.
    now rewrite skipn_app_length.
  - cbn [forallb] in Hd. apply andb_true_iff in Hd. destruct Hd as [Hc Hd].
    assert (Hne : Ascii.eqb l0 c = false).
    { destruct (Ascii.eqb_spec l0 c) as [->|]; [congruence|reflexivity]. }
    cbn [app]. cbn [find_sub prefixb]. rewrite Hne. cbn [andb].
    rewrite (IH Hd). reflexivity.
Qed.

Lemma span_digits_app ds u rest :
  forallb is_digit ds = true -> is_digit u = false -> span_digits (ds ++ u :: rest) = (ds, u :: rest).
Proof.
  intros Hd Hu. induction ds as [|c ds IH]; cbn [app span_digits].
  - now rewrite Hu.
  - cbn [forallb] in Hd. apply andb_true_iff in Hd. destruct Hd as [Hc Hd]. rewrite Hc, (IH Hd). reflexivity.
Qed.

Lemma span_digits_all ds : forallb is_digit ds = true -> span_digits ds = (ds, []).
Proof.
  intros Hd. induction ds as [|c ds IH]; cbn [span_digits]; [reflexivity|].
  cbn [forallb] in Hd. apply andb_true_iff in Hd. destruct Hd as [Hc Hd]. rewrite Hc, (IH Hd). reflexivity.
Qed.
