(* C20 correspondence harness for the writer-generic manager: evaluated by vm_compute on histories driven through the REAL
   MultiOutputHandlerManager (implrun lru-ops) with the REAL record writers and writer options.
   The SAME definitions (Generic.runG / finalG over the writers of Writers.v) the per-writer theorems of Props.v are about.
   Keys and values are ASCII here, so lib.DisplayWidth = byte length. *)
From Miller Require Import Base.Bytes Base.Record C20.Model C20.Generic C20.Writers.
From Miller Require Import C01.Model.
Open Scope Z_scope.

Definition blen : bytes -> nat := @List.length Ascii.ascii.

(* writer = (format code, flags); flags: bit0 headerless, bit1 barred, bit2 right-aligned, bit3 --no-jlistwrap,
   bit4 --no-jvstack, bit5 --omd-aligned, bit6 --quote-all, bit7 ORS = CR LF
   format: 0 dkvp 1 nidx 2 jsonl 3 csv 4 json 5 tsv 6 xtab 7 pprint 8 markdown 9 csvlite *)
Definition flag (fl : Z) (i : Z) : bool := Z.testbit fl i.

Definition writer_of (f fl : Z) : swriter :=
  let hl := flag fl 0 in let crlf := flag fl 7 in
  if f =? 1 then W_nidx (B " ") crlf
  else if f =? 2 then W_json_nowrap false
  else if f =? 3 then W_csv hl (flag fl 6) crlf ","%char
  else if f =? 4 then (if flag fl 3 then W_json_nowrap (negb (flag fl 4)) else W_json_wrap (negb (flag fl 4)))
  else if f =? 5 then W_tsv hl crlf
  else if f =? 6 then W_xtab blen (B " ") (flag fl 2)
  else if f =? 7 then W_pprint blen (flag fl 2) (flag fl 1) hl crlf
  else if f =? 8 then (if flag fl 5 then W_mda blen (ors_of crlf) else W_md crlf)
  else if f =? 9 then W_csvlite (B ",") hl crlf
  else W_dkvp (B ",") (B "=") crlf.

Definition mode_of (n : Z) : mode := if n =? 1 then MAppend else if n =? 2 then MPipe else MWrite.

Definition op_of (o : bytes * Z * record * bytes) : op :=
  let '(t, k, r, s) := o in if k =? 0 then (t, ERec r) else (t, EStr s).

Fixpoint bstore_of (l : list (bytes * bytes)) : bstore :=
  match l with
  | [] => fun _ => []
  | (t, content) :: r => bupd t content (bstore_of r)
  end.

Fixpoint all_match (fs : bstore) (obs : list (bytes * bytes)) : bool :=
  match obs with
  | [] => true
  | (t, content) :: r => beqb (fs t) content && all_match fs r
  end.

(* case = (mode, format, flags, capacity, ops, files before, files after, the manager reported a writer error (1/0)).
   With an error the model must report one too (files are then not compared: what the goroutine had flushed is scheduling);
   without, every touched or pre-existing target must hold exactly the model's bytes. *)
Definition chkG (c : Z * Z * Z * Z * list (bytes * Z * record * bytes) * list (bytes * bytes) * list (bytes * bytes) * Z) : bool :=
  let '(md, f, fl, cap, ops, before, after, errd) := c in
  let W := writer_of f fl in
  let ops' := map op_of ops in
  let m := runG W (mode_of md) (Z.to_nat cap) ops' (bstore_of before) in
  if errd =? 1 then g_err m
  else negb (g_err m) && all_match (finalG W (mode_of md) (Z.to_nat cap) ops' (bstore_of before)) after.

(* the files the manager holds open just before Close(), counted by the driver in /proc/self/fd: by
   C20_open_set_is_most_recently_used it is the number of the max(c,1) most recently used distinct targets *)
Definition chk_open (c : Z * list bytes * Z) : bool :=
  let '(cap, order, seen) := c in
  Z.of_nat (List.length (firstn (Nat.max (Z.to_nat cap) 1) (recency order))) =? seen.
