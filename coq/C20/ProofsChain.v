(* C20 proofs, part 11: several fan-out stages upstream of an early-exit verb. *)
From Miller Require Import Base.Record C20.Model C20.Proofs.
Open Scope list_scope.

Lemma chain_tees k n recs : chain (repeat VTee k ++ [VHead n]) recs = (repeat recs k, firstn n recs).
Proof. induction k as [|k IH]; cbn; [reflexivity|]. now rewrite IH. Qed.

(* the first stage is the tee verb: it does not forward the downstream-done flag, so the reader delivers everything, and every
   fan-out stage up to the head receives every record; the main output is the first n records *)
Theorem fanouts_before_head k n cut recs :
  run_chain (repeat VTee (S k) ++ [VHead n]) cut recs = (repeat recs (S k), firstn n recs).
Proof.
  unfold run_chain. cbn [repeat app]. rewrite tee_first_delivers_all. exact (chain_tees (S k) n recs).
Qed.
