(* C20 proofs, part 1: the LRU bookkeeping invariant of the output-handler manager, for every op history. *)
From Miller Require Import Base.Record C20.Model.
From Coq Require Import Arith PeanoNat.
Open Scope list_scope.

Notation len := List.length.
Definition names (l : list (target * wstate)) : list target := map fst l.

(* ---------------------------------------------------------------- small facts *)
Lemma beqb_eq a b : beqb a b = true <-> a = b.
Proof. destruct (beqb_spec a b); split; congruence. Qed.

Lemma beqb_neq a b : beqb a b = false <-> a <> b.
Proof. destruct (beqb_spec a b); split; congruence. Qed.

Lemma beqb_sym a b : beqb a b = beqb b a.
Proof. destruct (beqb_spec a b), (beqb_spec b a); congruence. Qed.

Lemma upd_same t v f : upd t v f t = v.
Proof. unfold upd. now rewrite beqb_refl. Qed.

Lemma upd_other t v f x : x <> t -> upd t v f x = f x.
Proof. unfold upd. intros H. apply beqb_neq in H. now rewrite H. Qed.

Lemma mem_false_iff k l : mem k l = false <-> ~ In k l.
Proof. rewrite <- mem_In. destruct (mem k l); split; congruence. Qed.

Lemma In_rm x t l : In x (rm t l) <-> In x l /\ x <> t.
Proof.
  unfold rm. rewrite filter_In. rewrite negb_true_iff, beqb_neq. intuition congruence.
Qed.

Lemma lookup_none t l : lookup t l = None <-> ~ In t (names l).
Proof.
  induction l as [|[t' w] l IH]; cbn; [tauto|].
  destruct (beqb_spec t t') as [->|Hne].
  - split; [discriminate|]. intros H. exfalso. apply H. now left.
  - rewrite IH. split; intros H; [intros [E|E]; [congruence|tauto]|tauto].
Qed.

Lemma lookup_some_in t l w : lookup t l = Some w -> In t (names l).
Proof.
  intros H. destruct (in_dec (list_eq_dec Ascii.ascii_dec) t (names l)) as [Hi|Hn]; [exact Hi|].
  apply lookup_none in Hn. congruence.
Qed.

Lemma in_names_lookup t l : In t (names l) -> exists w, lookup t l = Some w.
Proof.
  intros H. destruct (lookup t l) eqn:E; [eauto|]. apply lookup_none in E. contradiction.
Qed.

Lemma names_drop_in x t l : In x (names (drop t l)) -> In x (names l).
Proof.
  induction l as [|[t' w] l IH]; cbn; [tauto|].
  destruct (beqb t t'); cbn; [tauto|]. intros [E|E]; [now left|right; auto].
Qed.

Lemma drop_nodup t l : NoDup (names l) -> NoDup (names (drop t l)) /\ ~ In t (names (drop t l)).
Proof.
  induction l as [|[t' w] l IH]; cbn; intros Hnd; [split; [constructor|tauto]|].
  inversion Hnd as [|? ? Hni Hnd']; subst.
  destruct (beqb_spec t t') as [->|Hne]; [split; assumption|].
  destruct (IH Hnd') as [H1 H2]. cbn. split.
  - constructor; [|exact H1]. intros Hin. apply Hni. eapply names_drop_in; eauto.
  - intros [E|E]; [congruence|tauto].
Qed.

Lemma names_drop_iff x t l : NoDup (names l) -> (In x (names (drop t l)) <-> In x (names l) /\ x <> t).
Proof.
  induction l as [|[t' w] l IH]; cbn; intros Hnd; [tauto|].
  inversion Hnd as [|? ? Hni Hnd']; subst.
  destruct (beqb_spec t t') as [->|Hne].
  - split; [intros H; split; [now right|congruence]|]. intros [[E|E] Hx]; [congruence|exact E].
  - cbn. rewrite (IH Hnd'). split.
    + intros [E|[E1 E2]]; [subst; split; [now left|congruence]|split; [now right|exact E2]].
    + intros [[E|E] Hx]; [now left|right; tauto].
Qed.

Lemma drop_length t l w : lookup t l = Some w -> S (len (drop t l)) = len l.
Proof.
  revert w. induction l as [|[t' w'] l IH]; cbn; intros w H; [discriminate|].
  destruct (beqb t t'); [reflexivity|]. cbn. f_equal. eauto.
Qed.

Lemma lookup_drop_other x t l : x <> t -> lookup x (drop t l) = lookup x l.
Proof.
  intros Hne. induction l as [|[t' w'] l IH]; cbn; [reflexivity|].
  destruct (beqb_spec t t') as [->|Hn]; cbn.
  - destruct (beqb_spec x t'); [congruence|reflexivity].
  - destruct (beqb x t'); auto.
Qed.

Lemma split_last_none {A} (l : list A) : split_last l = None <-> l = [].
Proof.
  destruct l as [|x l]; cbn; [tauto|]. destruct (split_last l) as [[i z]|]; split; discriminate.
Qed.

Lemma split_last_app {A} (i : list A) z : split_last (i ++ [z]) = Some (i, z).
Proof.
  induction i as [|a i IH]; cbn; [reflexivity|]. now rewrite IH.
Qed.

Lemma split_last_spec {A} (l : list A) i z : split_last l = Some (i, z) <-> l = i ++ [z].
Proof.
  split; [|intros ->; apply split_last_app].
  revert i z. induction l as [|x l IH]; intros i z; cbn; [discriminate|].
  destruct (split_last l) as [[i' z']|] eqn:E.
  - intros H. inversion H; subst. cbn. f_equal. apply IH. reflexivity.
  - intros H. inversion H; subst. apply split_last_none in E. now subst.
Qed.

Lemma names_app a b : names (a ++ b) = names a ++ names b.
Proof. apply map_app. Qed.

(* ---------------------------------------------------------------- run, one op at a time *)
Lemma run_snoc md c F ops o fs0 : run md c F (ops ++ [o]) fs0 = step md c F (run md c F ops fs0) o.
Proof. unfold run. now rewrite fold_left_app. Qed.

Lemma step_err_sticky md c F m o : m_err m = true -> step md c F m o = m.
Proof.
  intros H. destruct o as [t [r|s]]; cbn; unfold write_rec, write_str; now rewrite H.
Qed.

Lemma err_monotone md c F m o : m_err (step md c F m o) = false -> m_err m = false.
Proof.
  destruct (m_err m) eqn:E; [|reflexivity]. now rewrite step_err_sticky, E.
Qed.

Lemma run_err_prefix md c F ops more fs0 :
  m_err (run md c F (ops ++ more) fs0) = false -> m_err (run md c F ops fs0) = false.
Proof.
  revert ops. induction more as [|o more IH] using rev_ind; intros ops H; [now rewrite app_nil_r in H|].
  rewrite app_assoc, run_snoc in H. apply err_monotone in H. auto.
Qed.

(* ---------------------------------------------------------------- the bookkeeping invariant *)
Record book (md : mode) (c : nat) (ops : list op) (m : mgr) : Prop := {
  b_nodup : NoDup (names (m_open m));
  b_evnodup : NoDup (m_evicted m);
  b_disj : forall t, In t (m_evicted m) -> ~ In t (names (m_open m));
  b_cov : forall t, In t (targets_of ops) <-> In t (names (m_open m)) \/ In t (m_evicted m);
  b_cap : is_pipe md = false -> len (m_open m) <= Nat.max c 1;
  b_pipe : is_pipe md = true -> m_evicted m = []
}.

Lemma book_init md c fs0 : book md c [] (init fs0).
Proof. split; cbn; try constructor; try tauto. intros; lia. Qed.

Lemma evict_last_book md c F ops m :
  book md c ops m -> is_pipe md = false -> m_open m <> [] ->
  book md c ops (evict_last F m) /\ S (len (m_open (evict_last F m))) = len (m_open m).
Proof.
  intros B Hp Hne. unfold evict_last.
  destruct (split_last (m_open m)) as [[rest [tl wtl]]|] eqn:E; [|apply split_last_none in E; contradiction].
  apply split_last_spec in E. cbn.
  pose proof (b_nodup _ _ _ _ B) as Hnd. rewrite E, names_app in Hnd. cbn in Hnd.
  apply NoDup_remove in Hnd. rewrite app_nil_r in Hnd. destruct Hnd as [Hnd Hni].
  split; [|rewrite E, app_length; cbn; lia].
  split; cbn.
  - exact Hnd.
  - constructor; [|apply (b_evnodup _ _ _ _ B)]. intros Hin. apply (b_disj _ _ _ _ B) in Hin. apply Hin.
    rewrite E, names_app. apply in_or_app. right. now left.
  - intros t [<-|Hin]; [exact Hni|]. intros H. apply (b_disj _ _ _ _ B t Hin). rewrite E, names_app. apply in_or_app. now left.
  - intros t. rewrite (b_cov _ _ _ _ B t), E, names_app, in_app_iff. cbn. tauto.
  - intros _. pose proof (b_cap _ _ _ _ B Hp) as H. rewrite E, app_length in H. cbn in H. lia.
  - congruence.
Qed.

Lemma make_room_book md c F ops t m :
  book md c ops m ->
  let m1 := make_room md c F t m in
  book md c ops m1 /\
  (lookup t (m_open m) = None -> is_pipe md = false -> S (len (m_open m1)) <= Nat.max c 1) /\
  (lookup t (m_open m1) = lookup t (m_open m)).
Proof.
  intros B. unfold make_room. cbn zeta.
  destruct (lookup t (m_open m)) as [w|] eqn:El; [split; [exact B|split; [discriminate|exact El]]|].
  destruct (is_pipe md) eqn:Ep; [split; [exact B|split; [discriminate|exact El]]|].
  destruct (Nat.leb c (len (m_open m))) eqn:Ec.
  - apply Nat.leb_le in Ec.
    destruct (split_last (m_open m)) as [[rest [tl wtl]]|] eqn:E.
    + assert (Hne : m_open m <> []).
      { intros H0. rewrite H0 in E. discriminate. }
      destruct (evict_last_book md c F ops m B Ep Hne) as [B1 Hl]. split; [exact B1|]. split.
      * intros _ _. pose proof (b_cap _ _ _ _ B Ep) as H. rewrite Hl. exact H.
      * (* t was not open, it is still not open *)
        apply lookup_none. intros Hin. apply lookup_none in El. apply El.
        unfold evict_last in Hin. rewrite E in Hin. cbn in Hin.
        apply split_last_spec in E. rewrite E, names_app. apply in_or_app. now left.
    + (* capacity 0 and nothing open: nothing to evict *)
      unfold evict_last. rewrite E. split; [exact B|split; [|exact El]]. intros _ _.
      apply split_last_none in E. rewrite E. cbn. lia.
  - apply Nat.leb_gt in Ec. split; [exact B|split; [|exact El]]. intros _ _. lia.
Qed.

(* the manager state after serving target t: t at the head *)
Lemma acquire_book md c F ops t e m :
  book md c ops m ->
  let '(ws, rest, ev, fs) := acquire md c F t m in
  forall ws' fs' er, book md c (ops ++ [(t, e)]) (Mgr ((t, ws') :: rest) ev fs' er).
Proof.
  intros B. unfold acquire.
  destruct (make_room_book md c F ops t m B) as (B1 & Hcap & Hlk). cbn zeta in *.
  set (m1 := make_room md c F t m) in *.
  destruct (lookup t (m_open m1)) as [w|] eqn:El.
  - (* hit *)
    intros ws' fs' er.
    destruct (drop_nodup t (m_open m1) (b_nodup _ _ _ _ B1)) as [Hnd Hni].
    split; cbn.
    + constructor; assumption.
    + apply (b_evnodup _ _ _ _ B1).
    + intros x Hx [E|E]; [subst x; apply (b_disj _ _ _ _ B1 t Hx); eapply lookup_some_in; eauto|].
      apply (b_disj _ _ _ _ B1 x Hx). eapply names_drop_in; eauto.
    + intros x. unfold targets_of. rewrite map_app, in_app_iff. cbn. fold (targets_of ops).
      rewrite (b_cov _ _ _ _ B1 x). rewrite (names_drop_iff x t _ (b_nodup _ _ _ _ B1)).
      destruct (list_eq_dec Ascii.ascii_dec x t) as [->|Hne].
      * split; [intros _; left; now left|]. intros _. left. left. eapply lookup_some_in; eauto.
      * split; [intros [[H|H]|[H|[]]]; [left; right; tauto|right; exact H|congruence]|].
        intros [[H|[H _]]|H]; [congruence|left; left; exact H|left; right; exact H].
    + intros Hp. pose proof (b_cap _ _ _ _ B1 Hp) as H. rewrite <- (drop_length t _ w El) in H. lia.
    + apply (b_pipe _ _ _ _ B1).
  - (* miss: open a new handler *)
    intros ws' fs' er.
    assert (Hnt : ~ In t (names (m_open m1))) by (now apply lookup_none).
    split; cbn.
    + constructor; [exact Hnt|apply (b_nodup _ _ _ _ B1)].
    + unfold rm. apply NoDup_filter. apply (b_evnodup _ _ _ _ B1).
    + intros x Hx. apply In_rm in Hx. destruct Hx as [Hx Hne]. intros [E|E]; [congruence|].
      apply (b_disj _ _ _ _ B1 x Hx E).
    + intros x. unfold targets_of. rewrite map_app, in_app_iff. cbn. fold (targets_of ops).
      rewrite (b_cov _ _ _ _ B1 x), In_rm.
      destruct (list_eq_dec Ascii.ascii_dec x t) as [->|Hne].
      * split; [intros _; left; now left|]. intros _. right. now left.
      * split; [intros [[H|H]|[H|[]]]; [left; right; exact H|right; tauto|congruence]|].
        intros [[H|H]|[H _]]; [congruence|left; left; exact H|left; right; exact H].
    + intros Hp. apply Hcap; [|exact Hp]. now rewrite <- Hlk.
    + intros Hp. rewrite (b_pipe _ _ _ _ B1 Hp). reflexivity.
Qed.

Lemma step_book md c F ops o m :
  book md c ops m -> m_err (step md c F m o) = false -> book md c (ops ++ [o]) (step md c F m o).
Proof.
  intros B He. pose proof (err_monotone _ _ _ _ _ He) as He0.
  destruct o as [t [r|s]]; cbn in *; unfold write_rec, write_str in *; rewrite He0 in *.
  - pose proof (acquire_book md c F ops t (ERec r) m B) as H.
    destruct (acquire md c F t m) as [[[ws rest] ev] fs].
    destruct (w_rec F ws r) as [[its ws']|]; [apply H|cbn in He; discriminate].
  - pose proof (acquire_book md c F ops t (EStr s) m B) as H.
    destruct (acquire md c F t m) as [[[ws rest] ev] fs]. apply H.
Qed.

Theorem run_book md c F ops fs0 :
  m_err (run md c F ops fs0) = false -> book md c ops (run md c F ops fs0).
Proof.
  induction ops as [|o ops IH] using rev_ind; intros He; [apply book_init|].
  rewrite run_snoc in *. apply step_book; [|exact He]. apply IH. eapply err_monotone; eauto.
Qed.

(* ================================================================ part 2: what the files hold *)
Definition start (md : mode) (fs0 : fstore) (ops : list op) (t : target) : list item :=
  if touched t ops then base md fs0 t else fs0 t.

Lemma touched_iff t ops : touched t ops = true <-> In t (targets_of ops).
Proof. unfold touched. apply mem_In. Qed.

Lemma touched_snoc t ops t' e : touched t (ops ++ [(t', e)]) = touched t ops || beqb t t'.
Proof.
  unfold touched, targets_of, mem. rewrite map_app, existsb_app. cbn. now rewrite orb_false_r.
Qed.

Lemma events_snoc t ops t' e :
  events_of t (ops ++ [(t', e)]) = events_of t ops ++ (if beqb t t' then [e] else []).
Proof.
  induction ops as [|[t2 e2] ops IH]; cbn.
  - destruct (beqb t t'); reflexivity.
  - destruct (beqb t t2); cbn; now rewrite IH.
Qed.

Lemma events_untouched t ops : touched t ops = false -> events_of t ops = [].
Proof.
  induction ops as [|[t2 e2] ops IH]; cbn; [reflexivity|].
  unfold touched, targets_of in *. cbn. destruct (beqb t t2); cbn; [discriminate|]. exact IH.
Qed.

Lemma make_room_view md c F t m :
  make_room md c F t m = m \/
  exists rest tl wtl,
    m_open m = rest ++ [(tl, wtl)] /\ lookup t (m_open m) = None /\ is_pipe md = false /\ c <= len (m_open m) /\
    make_room md c F t m = Mgr rest (tl :: m_evicted m) (upd tl (m_fs m tl ++ w_end F wtl) (m_fs m)) (m_err m).
Proof.
  unfold make_room. destruct (lookup t (m_open m)) eqn:El; [now left|].
  destruct (is_pipe md) eqn:Ep; [now left|].
  destruct (Nat.leb c (len (m_open m))) eqn:Ec; [|now left].
  unfold evict_last. destruct (split_last (m_open m)) as [[rest [tl wtl]]|] eqn:E; [|now left].
  right. exists rest, tl, wtl. apply split_last_spec in E. apply Nat.leb_le in Ec. auto.
Qed.

(* the store handed back by getOutputHandlerFor *)
Lemma acquire_fs md c F ops t m :
  book md c ops m ->
  let '(ws, rest, ev, fs) := acquire md c F t m in
  (forall x, x <> t -> exists tl, fs x = m_fs m x ++ tl /\ (tl = [] \/ exists w, tl = w_end F w)) /\
  fs t = (if negb (touched t ops) && negb (is_append md) then [] else m_fs m t).
Proof.
  intros B. unfold acquire.
  destruct (make_room_book md c F ops t m B) as (B1 & _ & Hlk).
  cbn zeta in *. set (m1 := make_room md c F t m) in *.
  (* files after make_room *)
  assert (Hfs1 : (forall x, x <> t -> exists tl, m_fs m1 x = m_fs m x ++ tl /\ (tl = [] \/ exists w, tl = w_end F w))
                 /\ m_fs m1 t = m_fs m t
                 /\ (In t (m_evicted m1) <-> In t (m_evicted m))).
  { destruct (make_room_view md c F t m) as [E|(rest & tl & wtl & Eo & El & Ep & Ec & E)]; fold m1 in E.
    - rewrite E. split; [|split; [reflexivity|tauto]]. intros x _. exists []. rewrite app_nil_r. auto.
    - assert (Htl : tl <> t).
      { intros ->. apply lookup_none in El. apply El. rewrite Eo, names_app. apply in_or_app. right. now left. }
      rewrite E. cbn. split; [|split].
      + intros x _. destruct (list_eq_dec Ascii.ascii_dec x tl) as [->|Hx].
        * rewrite upd_same. eexists. split; [reflexivity|]. right. eauto.
        * rewrite upd_other by exact Hx. exists []. rewrite app_nil_r. auto.
      + rewrite upd_other; [reflexivity|congruence].
      + split; [intros [H|H]; [congruence|exact H]|intros H; now right]. }
  destruct Hfs1 as (Hother & Hsame & Hev).
  destruct (lookup t (m_open m1)) as [w|] eqn:El.
  - (* hit *)
    split; [exact Hother|]. rewrite Hsame.
    assert (Ht : touched t ops = true).
    { apply touched_iff. apply (b_cov _ _ _ _ B). left. symmetry in Hlk. eapply lookup_some_in; eauto. }
    now rewrite Ht.
  - (* miss *)
    split.
    + intros x Hx. destruct (is_append md || mem t (m_evicted m1)); [apply Hother; exact Hx|].
      rewrite upd_other by exact Hx. apply Hother; exact Hx.
    + clear El. symmetry in Hlk. rename Hlk into El. apply lookup_none in El.
      destruct (touched t ops) eqn:Ht; cbn [negb andb].
      * apply touched_iff in Ht. apply (b_cov _ _ _ _ B) in Ht. destruct Ht as [Ht|Ht]; [contradiction|].
        apply Hev in Ht. apply mem_In in Ht. rewrite Ht, orb_true_r. exact Hsame.
      * assert (Hne : mem t (m_evicted m1) = false).
        { apply mem_false_iff. intros H. apply Hev in H.
          assert (Hin : In t (targets_of ops)) by (apply (b_cov _ _ _ _ B); now right).
          apply touched_iff in Hin. congruence. }
        rewrite Hne, orb_false_r. destruct (is_append md); cbn; [exact Hsame|apply upd_same].
Qed.

Lemma w_end_cases F w : w_end F w = [] \/ w_end F w = [IClose].
Proof. destruct F, w; cbn; auto. Qed.

Lemma close_all_view F m t :
  NoDup (names (m_open m)) ->
  close_all F m t = m_fs m t ++ match lookup t (m_open m) with Some w => w_end F w | None => [] end.
Proof.
  unfold close_all. generalize (m_fs m) as fs. induction (m_open m) as [|[t' w'] l IH]; intros fs Hnd; cbn.
  - now rewrite app_nil_r.
  - inversion Hnd as [|? ? Hni Hnd']; subst. rewrite IH by exact Hnd'.
    destruct (beqb_spec t t') as [->|Hne].
    + rewrite upd_same. apply lookup_none in Hni. now rewrite Hni, app_nil_r.
    + rewrite upd_other by exact Hne. reflexivity.
Qed.

(* ---- a projection of file content that does not see end-of-stream text and sees each event the same way
        whatever the writer state: records, raw strings, or (for stateless formats) everything *)
Section Projection.
  Variable F : fmt.
  Variable X : Type.
  Variable P : list item -> list X.
  Variable pe : event -> list X.
  Hypothesis P_app : forall a b, P (a ++ b) = P a ++ P b.
  Hypothesis P_nil : P [] = [].
  Hypothesis P_end : forall w, P (w_end F w) = [].
  Hypothesis P_rec : forall w r its w', w_rec F w r = Some (its, w') -> P its = pe (ERec r).
  Hypothesis P_str : forall s, P [IRaw s] = pe (EStr s).

  Lemma proj_run md c ops fs0 :
    m_err (run md c F ops fs0) = false ->
    forall t, P (m_fs (run md c F ops fs0) t) = P (start md fs0 ops t) ++ flat_map pe (events_of t ops).
  Proof.
    induction ops as [|o ops IH] using rev_ind; intros He t.
    - cbn. unfold start. cbn. now rewrite app_nil_r.
    - rewrite run_snoc in *. pose proof (err_monotone _ _ _ _ _ He) as He0.
      specialize (IH He0). pose proof (run_book md c F ops fs0 He0) as B.
      set (m := run md c F ops fs0) in *. destruct o as [t' e].
      pose proof (acquire_fs md c F ops t' m B) as Hacq.
      rewrite events_snoc, flat_map_app.
      unfold start. rewrite touched_snoc.
      assert (Hstep : exists ws rest ev fs its ws' er,
                 acquire md c F t' m = (ws, rest, ev, fs) /\
                 step md c F m (t', e) = Mgr ((t', ws') :: rest) ev (upd t' (fs t' ++ its) fs) er /\ P its = pe e).
      { destruct e as [r|s]; cbn in He |- *; unfold write_rec, write_str in *; rewrite He0 in *.
        - destruct (acquire md c F t' m) as [[[ws rest] ev] fs].
          destruct (w_rec F ws r) as [[its ws']|] eqn:Ew; [|cbn in He; discriminate].
          exists ws, rest, ev, fs, its, ws', false. split; [reflexivity|split; [reflexivity|eapply P_rec; eauto]].
        - destruct (acquire md c F t' m) as [[[ws rest] ev] fs].
          exists ws, rest, ev, fs, [IRaw s], ws, false. split; [reflexivity|split; [reflexivity|apply P_str]]. }
      destruct Hstep as (ws & rest & ev & fs & its & ws' & er & Ea & Es & Hits).
      rewrite Es. cbn [m_fs]. rewrite Ea in Hacq. destruct Hacq as [Hother Hsame].
      destruct (beqb_spec t t') as [->|Hne].
      + rewrite upd_same, P_app, Hits, Hsame, orb_true_r. cbn [flat_map]. rewrite app_nil_r.
        destruct (touched t' ops) eqn:Ht; cbn [negb andb].
        * rewrite IH. unfold start. rewrite Ht. now rewrite app_assoc.
        * rewrite (events_untouched _ _ Ht). cbn [flat_map app].
          unfold base. destruct (is_append md); cbn [negb]; [|now rewrite P_nil].
          rewrite IH. unfold start. rewrite Ht, (events_untouched _ _ Ht). cbn. now rewrite app_nil_r.
      + rewrite upd_other by exact Hne. destruct (Hother t Hne) as (tl & Efs & Htl).
        rewrite Efs, P_app, IH, orb_false_r. cbn [flat_map]. rewrite app_nil_r.
        assert (Hz : P tl = []) by (destruct Htl as [->|[w ->]]; [exact P_nil|apply P_end]).
        rewrite Hz, app_nil_r. reflexivity.
  Qed.

  Lemma proj_final md c ops fs0 :
    m_err (run md c F ops fs0) = false ->
    forall t, P (final md c F ops fs0 t) = P (start md fs0 ops t) ++ flat_map pe (events_of t ops).
  Proof.
    intros He t. unfold final. rewrite close_all_view by (apply (b_nodup _ _ _ _ (run_book md c F ops fs0 He))).
    rewrite P_app, proj_run by exact He.
    destruct (lookup t (m_open (run md c F ops fs0))); [rewrite P_end|rewrite P_nil]; now rewrite app_nil_r.
  Qed.
End Projection.

(* ---------------------------------------------------------------- instances of the projection *)
Definition pe_rec (e : event) : list record := match e with ERec r => [r] | EStr _ => [] end.
Definition pe_raw (e : event) : list bytes := match e with ERec _ => [] | EStr s => [s] end.
Definition pe_item (e : event) : list item := match e with ERec r => [IRec r 0] | EStr s => [IRaw s] end.

Lemma recs_of_app a b : recs_of (a ++ b) = recs_of a ++ recs_of b.
Proof. induction a as [|i a IH]; [reflexivity|]. destruct i; cbn; try exact IH. now rewrite IH. Qed.
Lemma raws_of_app a b : raws_of (a ++ b) = raws_of a ++ raws_of b.
Proof. induction a as [|i a IH]; [reflexivity|]. destruct i; cbn; try exact IH. now rewrite IH. Qed.

Lemma flat_pe_rec evs : flat_map pe_rec evs = recs_of_events evs.
Proof. induction evs as [|[r|s] evs IH]; cbn; congruence. Qed.
Lemma flat_pe_raw evs : flat_map pe_raw evs = strs_of_events evs.
Proof. induction evs as [|[r|s] evs IH]; cbn; congruence. Qed.

Lemma w_rec_recs F w r its w' : w_rec F w r = Some (its, w') -> recs_of its = [r] /\ raws_of its = [].
Proof.
  destruct F, w; cbn; intros H; try (inversion H; subst; cbn; auto; fail);
    destruct (prefix_agree first_keys (keys r)); inversion H; subst; cbn; auto.
Qed.

Lemma w_end_recs F w : recs_of (w_end F w) = [] /\ raws_of (w_end F w) = [].
Proof. destruct F, w; cbn; auto. Qed.

(* records: every format, every mode, any number of targets *)
Theorem routing_records md c F ops fs0 :
  m_err (run md c F ops fs0) = false ->
  forall t, recs_of (final md c F ops fs0 t) = recs_of (start md fs0 ops t) ++ recs_of_events (events_of t ops).
Proof.
  intros He t. rewrite <- flat_pe_rec.
  apply (proj_final F record recs_of pe_rec recs_of_app eq_refl); [| | |exact He].
  - intros w. apply w_end_recs.
  - intros w r its w' H. apply (w_rec_recs _ _ _ _ _ H).
  - reflexivity.
Qed.

Theorem routing_strings md c F ops fs0 :
  m_err (run md c F ops fs0) = false ->
  forall t, raws_of (final md c F ops fs0 t) = raws_of (start md fs0 ops t) ++ strs_of_events (events_of t ops).
Proof.
  intros He t. rewrite <- flat_pe_raw.
  apply (proj_final F bytes raws_of pe_raw raws_of_app eq_refl); [| | |exact He].
  - intros w. apply w_end_recs.
  - intros w r its w' H. apply (w_rec_recs _ _ _ _ _ H).
  - reflexivity.
Qed.

(* stateless formats: the whole file, any number of targets *)
Lemma wrun_stateless F : stateless F = true ->
  forall evs w, exists w', wrun F w evs = Some (flat_map pe_item evs, w').
Proof.
  intros Hs. induction evs as [|[r|s] evs IH]; intros w; cbn.
  - eauto.
  - assert (E : exists w1, w_rec F w r = Some ([IRec r 0], w1)) by (destruct F; try discriminate; cbn; eauto).
    destruct E as [w1 E]. rewrite E. destruct (IH w1) as [w' E']. rewrite E'. eauto.
  - destruct (IH w) as [w' E']. rewrite E'. eauto.
Qed.

Lemma single_doc_stateless F evs : stateless F = true -> single_doc F evs = Some (flat_map pe_item evs).
Proof.
  intros Hs. unfold single_doc. destruct (wrun_stateless F Hs evs WFresh) as [w' E]. rewrite E.
  assert (Hw : w_end F w' = []) by (destruct F, w'; try discriminate; reflexivity).
  now rewrite Hw, app_nil_r.
Qed.

Theorem one_document_stateless md c F ops fs0 :
  stateless F = true ->
  m_err (run md c F ops fs0) = false ->
  forall t, exists d, single_doc F (events_of t ops) = Some d /\ final md c F ops fs0 t = start md fs0 ops t ++ d.
Proof.
  intros Hs He t. exists (flat_map pe_item (events_of t ops)). split; [now apply single_doc_stateless|].
  apply (proj_final F item (fun x => x) pe_item (fun a b => eq_refl) eq_refl); [| | |exact He].
  - intros w. destruct F, w; try discriminate; reflexivity.
  - intros w r its w' H. destruct F; try discriminate; cbn in H; inversion H; reflexivity.
  - reflexivity.
Qed.

(* ================================================================ part 3: header / bracket formats.
   When nothing is ever evicted (pipes; or no more distinct targets than the capacity) every touched target is
   open, its writer state is the state of ONE writer run over the target's sub-sequence, and its file is that
   writer's output so far. *)
Lemma wrun_snoc F w evs e :
  wrun F w (evs ++ [e]) =
  match wrun F w evs with
  | Some (its, w1) =>
      match e with
      | ERec r => match w_rec F w1 r with Some (i2, w2) => Some (its ++ i2, w2) | None => None end
      | EStr s => Some (its ++ [IRaw s], w1)
      end
  | None => None
  end.
Proof.
  revert w. induction evs as [|[r|s] evs IH]; intros w; cbn.
  - destruct e as [r|s]; cbn; [|reflexivity]. destruct (w_rec F w r) as [[i2 w2]|]; [now rewrite app_nil_r|reflexivity].
  - destruct (w_rec F w r) as [[i1 w1]|]; [|reflexivity]. rewrite IH.
    destruct (wrun F w1 evs) as [[its w2]|]; [|reflexivity].
    destruct e as [r'|s']; [destruct (w_rec F w2 r') as [[i3 w3]|]|]; now rewrite ?app_assoc.
  - rewrite IH. destruct (wrun F w evs) as [[its w2]|]; [|reflexivity].
    destruct e as [r'|s']; [destruct (w_rec F w2 r') as [[i3 w3]|]|]; reflexivity.
Qed.

Lemma In_distinct x l : In x (distinct l) <-> In x l.
Proof. apply nodup_In. Qed.

Definition no_evict (md : mode) (c : nat) (ops : list op) : Prop :=
  is_pipe md = true \/ len (distinct (targets_of ops)) <= c.

Record sync (md : mode) (F : fmt) (fs0 : fstore) (ops : list op) (m : mgr) : Prop := {
  s_ev : m_evicted m = [];
  s_open : forall t, touched t ops = true ->
           exists its ws, wrun F WFresh (events_of t ops) = Some (its, ws) /\
                          lookup t (m_open m) = Some ws /\ m_fs m t = base md fs0 t ++ its;
  s_rest : forall t, touched t ops = false -> m_fs m t = fs0 t
}.

Lemma targets_snoc ops o : targets_of (ops ++ [o]) = targets_of ops ++ [fst o].
Proof. unfold targets_of. now rewrite map_app. Qed.

Lemma no_evict_room md c F ops more t m :
  no_evict md c (ops ++ more) -> In t (targets_of (ops ++ more)) ->
  book md c ops m -> m_evicted m = [] -> make_room md c F t m = m.
Proof.
  intros Hne Hin B Hev.
  destruct (make_room_view md c F t m) as [E|(rest & tl & wtl & Eo & El & Ep & Ec & E)]; [exact E|].
  exfalso. destruct Hne as [Hp|Hlen]; [congruence|].
  apply lookup_none in El.
  assert (Hnd : NoDup (t :: names (m_open m))) by (constructor; [exact El|apply (b_nodup _ _ _ _ B)]).
  assert (Hincl : incl (t :: names (m_open m)) (distinct (targets_of (ops ++ more)))).
  { intros x [<-|Hx]; apply In_distinct; [exact Hin|].
    unfold targets_of. rewrite map_app. apply in_or_app. left. apply (b_cov _ _ _ _ B). now left. }
  pose proof (NoDup_incl_length Hnd Hincl) as Hl. cbn in Hl. unfold names in Hl. rewrite map_length in Hl. lia.
Qed.

Lemma sync_step md c F fs0 ops more o m :
  no_evict md c (ops ++ o :: more) ->
  book md c ops m -> sync md F fs0 ops m -> m_err m = false -> m_err (step md c F m o) = false ->
  sync md F fs0 (ops ++ [o]) (step md c F m o).
Proof.
  intros Hne B S He0 He. destruct o as [t e].
  assert (Hroom : make_room md c F t m = m).
  { eapply no_evict_room; eauto; [|apply (s_ev _ _ _ _ _ S)].
    unfold targets_of. rewrite map_app. apply in_or_app. right. now left. }
  (* what acquire returns when nothing is evicted *)
  assert (Hacq : acquire md c F t m =
                 match lookup t (m_open m) with
                 | Some ws => (ws, drop t (m_open m), [], m_fs m)
                 | None => (WFresh, m_open m, [], if is_append md then m_fs m else upd t [] (m_fs m))
                 end).
  { unfold acquire. rewrite Hroom, (s_ev _ _ _ _ _ S). cbn. destruct (lookup t (m_open m)); [reflexivity|].
    now rewrite orb_false_r. }
  (* the handler's state and file before the write *)
  assert (Hpre : exists its0 ws0 rest fs,
             acquire md c F t m = (ws0, rest, [], fs) /\
             wrun F WFresh (events_of t ops) = Some (its0, ws0) /\
             fs t = base md fs0 t ++ its0 /\
             (forall x, x <> t -> fs x = m_fs m x /\ lookup x rest = lookup x (m_open m))).
  { rewrite Hacq. destruct (touched t ops) eqn:Ht.
    - destruct (s_open _ _ _ _ _ S t Ht) as (its0 & ws0 & Hw & Hl & Hf). rewrite Hl.
      exists its0, ws0, (drop t (m_open m)), (m_fs m). repeat split; auto. now apply lookup_drop_other.
    - assert (Hl : lookup t (m_open m) = None).
      { apply lookup_none. intros Hin. assert (In t (targets_of ops)) by (apply (b_cov _ _ _ _ B); now left).
        apply touched_iff in H. congruence. }
      rewrite Hl, (events_untouched _ _ Ht). cbn [wrun].
      exists [], WFresh, (m_open m), (if is_append md then m_fs m else upd t [] (m_fs m)).
      repeat split; auto.
      + unfold base. rewrite app_nil_r. destruct (is_append md); [apply (s_rest _ _ _ _ _ S t Ht)|apply upd_same].
      + destruct (is_append md); [reflexivity|now apply upd_other]. }
  destruct Hpre as (its0 & ws0 & rest & fs & Ea & Hw & Hft & Hoth).
  (* the write itself *)
  assert (Hst : exists its ws',
             step md c F m (t, e) = Mgr ((t, ws') :: rest) [] (upd t (fs t ++ its) fs) false /\
             wrun F WFresh (events_of t ops ++ [e]) = Some (its0 ++ its, ws')).
  { rewrite wrun_snoc, Hw. destruct e as [r|s]; cbn in He |- *; unfold write_rec, write_str in *; rewrite He0, Ea in *.
    - destruct (w_rec F ws0 r) as [[its ws']|]; [|cbn in He; discriminate]. eauto.
    - eauto. }
  destruct Hst as (its & ws' & Es & Hw'). rewrite Es.
  split; cbn [m_evicted m_open m_fs]; [reflexivity| |].
  - intros x Hx. rewrite touched_snoc in Hx. rewrite events_snoc. destruct (beqb_spec x t) as [Ext|Hxt]; [subst x|].
    + exists (its0 ++ its), ws'. split; [exact Hw'|]. cbn. rewrite beqb_refl. split; [reflexivity|].
      now rewrite upd_same, Hft, app_assoc.
    + rewrite orb_false_r in Hx. destruct (s_open _ _ _ _ _ S x Hx) as (i & w & H1 & H2 & H3).
      exists i, w. rewrite app_nil_r. split; [exact H1|]. cbn. apply beqb_neq in Hxt as Hb. rewrite Hb.
      destruct (Hoth x Hxt) as [Hf Hl]. rewrite Hl, upd_other, Hf by exact Hxt. auto.
  - intros x Hx. rewrite touched_snoc in Hx. apply orb_false_iff in Hx. destruct Hx as [Hx Hb].
    apply beqb_neq in Hb. destruct (Hoth x Hb) as [Hf _]. rewrite upd_other, Hf by exact Hb. apply (s_rest _ _ _ _ _ S x Hx).
Qed.

Lemma run_sync md c F fs0 ops more :
  no_evict md c (ops ++ more) -> m_err (run md c F ops fs0) = false -> sync md F fs0 ops (run md c F ops fs0).
Proof.
  revert more. induction ops as [|o ops IH] using rev_ind; intros more Hne He.
  - split; cbn; [reflexivity| |reflexivity]. intros t H. discriminate.
  - rewrite run_snoc in *. pose proof (err_monotone _ _ _ _ _ He) as He0.
    rewrite <- app_assoc in Hne. cbn in Hne.
    eapply sync_step; eauto. apply run_book; exact He0.
Qed.

Theorem one_document_no_eviction md c F ops fs0 :
  no_evict md c ops -> m_err (run md c F ops fs0) = false ->
  forall t, touched t ops = true ->
  exists d, single_doc F (events_of t ops) = Some d /\ final md c F ops fs0 t = base md fs0 t ++ d.
Proof.
  intros Hne He t Ht. rewrite <- (app_nil_r ops) in Hne.
  pose proof (run_sync md c F fs0 ops [] Hne He) as S.
  destruct (s_open _ _ _ _ _ S t Ht) as (its & ws & Hw & Hl & Hf).
  unfold final. rewrite close_all_view by (apply (b_nodup _ _ _ _ (run_book md c F ops fs0 He))).
  rewrite Hl, Hf. unfold single_doc. rewrite Hw. eexists. split; [reflexivity|]. now rewrite app_assoc.
Qed.

Theorem untouched_unchanged md c F ops fs0 :
  m_err (run md c F ops fs0) = false ->
  forall t, touched t ops = false -> final md c F ops fs0 t = fs0 t.
Proof.
  intros He t Ht.
  unfold final.
  pose proof (run_book md c F ops fs0 He) as B.
  rewrite close_all_view by (apply (b_nodup _ _ _ _ B)).
  assert (Hl : lookup t (m_open (run md c F ops fs0)) = None).
  { apply lookup_none. intros Hin. assert (In t (targets_of ops)) by (apply (b_cov _ _ _ _ B); now left).
    apply touched_iff in H. congruence. }
  rewrite Hl, app_nil_r. clear Hl B.
  induction ops as [|o ops IH] using rev_ind; [reflexivity|].
  rewrite run_snoc in *. pose proof (err_monotone _ _ _ _ _ He) as He0. destruct o as [t' e].
  rewrite touched_snoc in Ht. apply orb_false_iff in Ht. destruct Ht as [Ht Hb]. apply beqb_neq in Hb.
  specialize (IH He0 Ht). pose proof (run_book md c F ops fs0 He0) as B.
  set (m := run md c F ops fs0) in *.
  pose proof (acquire_fs md c F ops t' m B) as Hacq.
  assert (Hnl : lookup t (m_open m) = None).
  { apply lookup_none. intros Hin. assert (In t (targets_of ops)) by (apply (b_cov _ _ _ _ B); now left).
    apply touched_iff in H. congruence. }
  (* t is not open, so make_room cannot have closed it: its file is unchanged *)
  assert (Hfs : forall ws rest ev fs, acquire md c F t' m = (ws, rest, ev, fs) -> fs t = m_fs m t).
  { intros ws rest ev fs Ea. unfold acquire in Ea.
    assert (H1 : m_fs (make_room md c F t' m) t = m_fs m t).
    { destruct (make_room_view md c F t' m) as [E|(rest' & tl & wtl & Eo & El & Ep & Ec & E)]; rewrite E; [reflexivity|].
      cbn. apply upd_other. intros ->. apply lookup_none in Hnl. apply Hnl. rewrite Eo, names_app. apply in_or_app. right. now left. }
    destruct (lookup t' (m_open (make_room md c F t' m))); inversion Ea; subst; [exact H1|].
    destruct (is_append md || mem t' (m_evicted (make_room md c F t' m))); [exact H1|]. now rewrite upd_other. }
  destruct e as [r|s]; cbn in He |- *; unfold write_rec, write_str in *; rewrite He0 in *.
  - destruct (acquire md c F t' m) as [[[ws rest] ev] fs] eqn:Ea.
    destruct (w_rec F ws r) as [[its ws']|]; [|cbn in He; discriminate]. cbn. rewrite upd_other by exact Hb.
    rewrite (Hfs _ _ _ _ eq_refl). exact IH.
  - destruct (acquire md c F t' m) as [[[ws rest] ev] fs] eqn:Ea. cbn. rewrite upd_other by exact Hb.
    rewrite (Hfs _ _ _ _ eq_refl). exact IH.
Qed.

(* ================================================================ part 4: shape of the reference document *)
Definition has_rec (evs : list event) : bool := match recs_of_events evs with [] => false | _ => true end.

Lemma count_app p a b : count p (a ++ b) = count p a + count p b.
Proof. unfold count. now rewrite filter_app, app_length. Qed.

Definition nblank (F : fmt) (n : nat) : nat := match F with FXtab => n | _ => 0 end.

Lemma wrun_started_counts F fk evs its w :
  wrun F (WStarted fk) evs = Some (its, w) ->
  count is_header its = 0 /\ count is_open its = 0 /\ count is_close its = 0 /\
  count is_blank its = nblank F (len (recs_of_events evs)) /\ exists fk', w = WStarted fk'.
Proof.
  revert its w. induction evs as [|[r|s] evs IH]; cbn [wrun recs_of_events]; intros its w H.
  - inversion H; subst. destruct F; cbn; eauto 10.
  - destruct (w_rec F (WStarted fk) r) as [[i1 w1]|] eqn:E1; [|discriminate].
    destruct (wrun F w1 evs) as [[i2 w2]|] eqn:E2; [|discriminate]. inversion H; subst.
    assert (Hw1 : w1 = WStarted fk /\ count is_header i1 = 0 /\ count is_open i1 = 0 /\ count is_close i1 = 0 /\
                  count is_blank i1 = nblank F 1).
    { destruct F; cbn in E1; try (inversion E1; subst; cbn; auto; fail);
        destruct (prefix_agree fk (keys r)); inversion E1; subst; cbn; auto. }
    destruct Hw1 as (-> & h1 & h2 & h3 & h4). destruct (IH _ _ E2) as (g1 & g2 & g3 & g4 & g5).
    rewrite !count_app, h1, h2, h3, h4, g1, g2, g3, g4. repeat split; try lia; [|exact g5].
    destruct F; cbn; lia.
  - destruct (wrun F (WStarted fk) evs) as [[i2 w2]|] eqn:E2; [|discriminate]. inversion H; subst.
    destruct (IH _ _ eq_refl) as (g1 & g2 & g3 & g4 & g5). unfold count in *. cbn. auto.
Qed.

(* one header (CSV, TSV) / one bracket pair (JSON) iff at least one record; XTAB: one empty line BETWEEN records *)
Theorem single_doc_shape F evs d :
  single_doc F evs = Some d ->
  let one := if has_rec evs then 1 else 0 in
  count is_header d = (match F with FCsv | FTsv => one | _ => 0 end) /\
  count is_open d = (match F with FJson => one | _ => 0 end) /\
  count is_close d = (match F with FJson => one | _ => 0 end) /\
  count is_blank d = nblank F (pred (len (recs_of_events evs))).
Proof.
  unfold single_doc. destruct (wrun F WFresh evs) as [[its w]|] eqn:E; [|discriminate].
  intros H. inversion H; subst. clear H. cbn zeta.
  revert its w E. induction evs as [|[r|s] evs IH]; cbn [wrun recs_of_events]; intros its w E.
  - inversion E; subst. destruct F; cbn; auto.
  - destruct (w_rec F WFresh r) as [[i1 w1]|] eqn:E1; [|discriminate].
    destruct (wrun F w1 evs) as [[i2 w2]|] eqn:E2; [|discriminate]. inversion E; subst.
    assert (H1 : w1 = WStarted (keys r)) by (destruct F; cbn in E1; inversion E1; reflexivity).
    subst w1. destruct (wrun_started_counts _ _ _ _ _ E2) as (g1 & g2 & g3 & g4 & fk' & ->).
    unfold has_rec. cbn [recs_of_events len pred]. rewrite !count_app, g1, g2, g3, g4.
    destruct F; cbn in E1; inversion E1; subst; cbn; auto.
  - destruct (wrun F WFresh evs) as [[i2 w2]|] eqn:E2; [|discriminate]. inversion E; subst.
    specialize (IH _ _ eq_refl). unfold has_rec in *. cbn [recs_of_events]. unfold count in *. cbn. exact IH.
Qed.

(* ================================================================ part 5: beyond the capacity, header / bracket formats:
   the faithful model writes a second header / bracket pair when an evicted target is used again *)
Definition wname (i : nat) : target := [ascii_of_nat (65 + i / 26); ascii_of_nat (97 + i mod 26)].
Definition wrec (i : nat) : record := [(B "a", [ascii_of_nat (48 + i mod 10)]); (B "b", B "x")].
(* c+1 targets once each, then the first one again (it was evicted when the last one was opened) *)
Definition witness_ops (c : nat) : list op :=
  map (fun i => (wname i, ERec (wrec i))) (seq 0 (S c)) ++ [(wname 0, ERec (wrec 1))].
Definition empty_store : fstore := fun _ => [].

Lemma witness_csv_256 :
  let ops := witness_ops 256 in let t := wname 0 in
  len (distinct (targets_of ops)) = 257 /\
  m_err (run MWrite 256 FCsv ops empty_store) = false /\
  exists d, single_doc FCsv (events_of t ops) = Some d /\
            final MWrite 256 FCsv ops empty_store t <> d /\
            count is_header d = 1 /\ count is_header (final MWrite 256 FCsv ops empty_store t) = 2.
Proof.
  cbn zeta. split; [vm_compute; reflexivity|]. split; [vm_compute; reflexivity|].
  eexists. split; [vm_compute; reflexivity|]. split; [vm_compute; discriminate|]. split; vm_compute; reflexivity.
Qed.

Lemma witness_json_256 :
  let ops := witness_ops 256 in let t := wname 0 in
  m_err (run MWrite 256 FJson ops empty_store) = false /\
  exists d, single_doc FJson (events_of t ops) = Some d /\
            final MWrite 256 FJson ops empty_store t <> d /\
            count is_open d = 1 /\ count is_close d = 1 /\
            count is_open (final MWrite 256 FJson ops empty_store t) = 2 /\
            count is_close (final MWrite 256 FJson ops empty_store t) = 2.
Proof.
  cbn zeta. split; [vm_compute; reflexivity|].
  eexists. split; [vm_compute; reflexivity|]. split; [vm_compute; discriminate|]. repeat split; vm_compute; reflexivity.
Qed.

(* the smallest instance, readable: capacity 1, targets Aa Ab Aa *)
Lemma witness_csv_small :
  render FCsv (final MWrite 1 FCsv (witness_ops 1) empty_store (wname 0)) = B "a,b
0,x
a,b
1,x
".
Proof. vm_compute. reflexivity. Qed.

(* ================================================================ part 6: tee in a chain *)
Lemma tee_first_delivers_all rest cut recs : delivered (VTee :: rest) cut recs = recs.
Proof. reflexivity. Qed.

Theorem tee_then_head n rest cut recs :
  run_chain (VTee :: VHead n :: rest) cut recs =
  (recs :: fst (chain rest (firstn n recs)), snd (chain rest (firstn n recs))).
Proof.
  unfold run_chain. rewrite tee_first_delivers_all. cbn. destruct (chain rest (firstn n recs)); reflexivity.
Qed.

(* without the tee, the reader is allowed to stop early: this is what the tee's special case prevents *)
Lemma head_alone_may_stop n cut recs : run_chain [VHead n] cut recs = ([], firstn n (firstn cut recs)).
Proof. reflexivity. Qed.

(* ================================================================ part 7: the open set is the c most recently used targets *)
Lemma recency_snoc ts t : recency (ts ++ [t]) = t :: rm t (recency ts).
Proof. unfold recency. now rewrite fold_left_app. Qed.

Lemma rm_notin t l : ~ In t l -> rm t l = l.
Proof.
  induction l as [|x l IH]; cbn; intros H; [reflexivity|].
  destruct (beqb_spec t x) as [->|Hne]; cbn; [exfalso; apply H; now left|]. f_equal. apply IH. tauto.
Qed.

Lemma rm_nodup t l : NoDup l -> NoDup (rm t l).
Proof. intros H. unfold rm. now apply NoDup_filter. Qed.

Lemma recency_nodup ts : NoDup (recency ts).
Proof.
  induction ts as [|t ts IH] using rev_ind; [constructor|].
  rewrite recency_snoc. constructor; [|now apply rm_nodup]. intros H. apply In_rm in H. tauto.
Qed.

Lemma names_drop_rm t l : NoDup (names l) -> names (drop t l) = rm t (names l).
Proof.
  induction l as [|[t' w] l IH]; cbn; intros Hnd; [reflexivity|].
  inversion Hnd as [|? ? Hni Hnd']; subst.
  destruct (beqb_spec t t') as [->|Hne]; cbn.
  - symmetry. now apply rm_notin.
  - f_equal. now apply IH.
Qed.

(* removing t from the first n elements of a duplicate-free list that contain it = first n-1 of the list without t *)
Lemma firstn_In' {A} n (l : list A) x : In x (firstn n l) -> In x l.
Proof. revert l. induction n; intros [|y l]; cbn; try tauto. intros [E|E]; auto. Qed.

Lemma rm_firstn_in t n l : NoDup l -> In t (firstn n l) -> rm t (firstn n l) = firstn (n - 1) (rm t l).
Proof.
  revert n. induction l as [|x l IH]; intros n Hnd Hin; [destruct n; destruct Hin|].
  destruct n as [|n]; [destruct Hin|]. inversion Hnd as [|? ? Hni Hnd']; subst.
  replace (S n - 1) with n by lia. cbn [firstn] in *.
  cbn [rm filter]. destruct (beqb_spec t x) as [->|Hne]; cbn [negb].
  - fold (rm x (firstn n l)). fold (rm x l).
    rewrite rm_notin by (intros H; apply Hni; eapply firstn_In'; eauto).
    now rewrite rm_notin.
  - fold (rm t (firstn n l)). fold (rm t l). destruct Hin as [E|Hin]; [congruence|].
    rewrite IH by assumption. destruct n as [|n]; [destruct Hin|]. replace (S n - 1) with n by lia. reflexivity.
Qed.

Lemma firstn_rm_notin t n l : ~ In t (firstn n l) -> firstn n (rm t l) = firstn n l.
Proof.
  revert n. induction l as [|x l IH]; intros n H; [now destruct n|].
  destruct n as [|n]; [reflexivity|]. cbn [firstn] in H. cbn [rm filter].
  destruct (beqb_spec t x) as [->|Hne]; cbn [negb]; [exfalso; apply H; now left|].
  fold (rm t l). cbn [firstn]. f_equal. apply IH. intros Hin. apply H. now right.
Qed.

Lemma removelast_firstn_len {A} n (l : list A) : len (firstn (S n) l) = S n -> removelast (firstn (S n) l) = firstn n l.
Proof. intros H. apply removelast_firstn. rewrite firstn_length in H. lia. Qed.

Lemma firstn_In_S {A} n (l : list A) x : In x (firstn n l) -> In x (firstn (S n) l).
Proof.
  revert l. induction n as [|n IH]; intros [|y l] H; cbn in *; try tauto.
  destruct H as [H|H]; [now left|right; now apply IH].
Qed.

(* names of the other open handlers after getOutputHandlerFor *)
Lemma acquire_names md c F t m :
  NoDup (names (m_open m)) ->
  let '(ws, rest, ev, fs) := acquire md c F t m in
  names rest =
  match lookup t (m_open m) with
  | Some _ => rm t (names (m_open m))
  | None => if is_pipe md then names (m_open m)
            else if Nat.leb c (len (m_open m)) then removelast (names (m_open m)) else names (m_open m)
  end.
Proof.
  intros Hnd. unfold acquire, make_room.
  destruct (lookup t (m_open m)) as [w|] eqn:El.
  - rewrite El. now apply names_drop_rm.
  - destruct (is_pipe md); [now rewrite El|].
    destruct (Nat.leb c (len (m_open m))); [|now rewrite El].
    unfold evict_last. destruct (split_last (m_open m)) as [[rest [tl wtl]]|] eqn:E.
    + cbn. apply split_last_spec in E.
      assert (Hl : lookup t rest = None).
      { apply lookup_none. intros Hin. apply lookup_none in El. apply El. rewrite E, names_app. apply in_or_app. now left. }
      rewrite Hl, E, names_app. cbn. now rewrite removelast_last.
    + rewrite El. apply split_last_none in E. now rewrite E.
Qed.

Theorem open_is_most_recent md c F ops fs0 :
  is_pipe md = false -> m_err (run md c F ops fs0) = false ->
  names (m_open (run md c F ops fs0)) = firstn (Nat.max c 1) (recency (targets_of ops)).
Proof.
  intros Hp. induction ops as [|o ops IH] using rev_ind; intros He.
  - cbn. now destruct (Nat.max c 1).
  - rewrite run_snoc in *. pose proof (err_monotone _ _ _ _ _ He) as He0. specialize (IH He0).
    pose proof (run_book md c F ops fs0 He0) as B. set (m := run md c F ops fs0) in *.
    destruct o as [t e]. rewrite targets_snoc, recency_snoc. cbn [fst].
    set (L := recency (targets_of ops)) in *. set (C := Nat.max c 1) in *.
    assert (HC : C = S (C - 1)) by (unfold C; lia).
    assert (Hnames : names (m_open (step md c F m (t, e))) = t :: (let '(ws, rest, ev, fs) := acquire md c F t m in names rest)).
    { destruct e as [r|s]; cbn in He |- *; unfold write_rec, write_str in *; rewrite He0 in *.
      - destruct (acquire md c F t m) as [[[ws rest] ev] fs]. destruct (w_rec F ws r) as [[its ws']|]; [reflexivity|cbn in He; discriminate].
      - destruct (acquire md c F t m) as [[[ws rest] ev] fs]. reflexivity. }
    rewrite Hnames. pose proof (acquire_names md c F t m (b_nodup _ _ _ _ B)) as Ha.
    destruct (acquire md c F t m) as [[[ws rest] ev] fs]. rewrite Ha, Hp. clear Ha Hnames.
    rewrite HC at 1. cbn [firstn]. f_equal.
    pose proof (recency_nodup (targets_of ops)) as HndL. fold L in HndL.
    destruct (lookup t (m_open m)) as [w|] eqn:El.
    + (* hit *) rewrite IH. apply rm_firstn_in; [exact HndL|]. rewrite <- IH. eapply lookup_some_in; eauto.
    + apply lookup_none in El. rewrite IH in El.
      assert (Hlen : len (m_open m) = len (firstn C L)) by (rewrite <- IH; unfold names; now rewrite map_length).
      destruct (Nat.leb c (len (m_open m))) eqn:Ec.
      * apply Nat.leb_le in Ec. rewrite IH.
        destruct (Nat.eq_dec (len (firstn C L)) 0) as [Hz|Hnz].
        -- (* nothing open: L is empty *)
           assert (HL0 : L = []).
           { destruct L as [|y L']; [reflexivity|]. rewrite HC in Hz. discriminate. }
           rewrite HL0. cbn. now rewrite !firstn_nil.
        -- (* the cache is full *)
           assert (HlenC : len (firstn C L) = C).
           { pose proof (b_cap _ _ _ _ B Hp) as Hcap. fold m in Hcap. fold C in Hcap. rewrite Hlen in Hcap, Ec.
             unfold C in *. lia. }
           rewrite HC in HlenC. rewrite HC at 1. rewrite removelast_firstn_len by exact HlenC.
           symmetry. apply firstn_rm_notin. intros Hin. apply El. rewrite HC.
           now apply firstn_In_S.
      * apply Nat.leb_gt in Ec. rewrite IH.
        assert (HL : firstn C L = L).
        { apply firstn_all2. rewrite Hlen in Ec. destruct (Nat.le_gt_cases (len L) C) as [H|H]; [exact H|].
          rewrite firstn_length_le in Ec by lia. unfold C in *. lia. }
        rewrite HL in *. rewrite (rm_notin t L El).
        symmetry. apply firstn_all2. rewrite Hlen in Ec. unfold C in *. lia.
Qed.

(* ================================================================ part 8: the repaired manager (keep the writer across eviction)
   keeps ONE document per target for every format and any number of targets *)
Lemma lookup_app t a b : lookup t (a ++ b) = match lookup t a with Some w => Some w | None => lookup t b end.
Proof. induction a as [|[t' w] a IH]; cbn; [reflexivity|]. destruct (beqb t t'); auto. Qed.

Lemma drop_app_in t a b w : lookup t a = Some w -> drop t (a ++ b) = drop t a ++ b.
Proof.
  induction a as [|[t' w'] a IH]; cbn; [discriminate|]. destruct (beqb t t'); [reflexivity|]. intros H. cbn. f_equal. auto.
Qed.

Lemma drop_app_notin t a b : lookup t a = None -> drop t (a ++ b) = a ++ drop t b.
Proof.
  induction a as [|[t' w'] a IH]; cbn; [reflexivity|]. destruct (beqb t t'); [discriminate|]. intros H. cbn. f_equal. auto.
Qed.

Lemma drop_notin t l : lookup t l = None -> drop t l = l.
Proof.
  induction l as [|[t' w'] l IH]; cbn; [reflexivity|]. destruct (beqb t t'); [discriminate|]. intros H. f_equal. auto.
Qed.

Definition comb (m : mgrR) : list (target * wstate) := r_open m ++ r_susp m.

Lemma make_roomR_comb md c t m :
  comb (make_roomR md c t m) = comb m /\ r_fs (make_roomR md c t m) = r_fs m.
Proof.
  unfold make_roomR. destruct (lookup t (r_open m)); [auto|]. destruct (is_pipe md); [auto|].
  destruct (Nat.leb c (len (r_open m))); [|auto]. unfold evict_lastR.
  destruct (split_last (r_open m)) as [[rest x]|] eqn:E; [|auto].
  apply split_last_spec in E. unfold comb. cbn. rewrite E, <- app_assoc. auto.
Qed.

Lemma acquireR_view md c t m :
  let '(ws, rest, susp, fs) := acquireR md c t m in
  rest ++ susp = drop t (comb m) /\
  ws = match lookup t (comb m) with Some w => w | None => WFresh end /\
  fs = match lookup t (comb m) with
       | Some _ => r_fs m
       | None => if is_append md then r_fs m else upd t [] (r_fs m)
       end.
Proof.
  unfold acquireR. destruct (make_roomR_comb md c t m) as [Hc Hf].
  set (m1 := make_roomR md c t m) in *. rewrite <- Hc, <- Hf. unfold comb.
  destruct (lookup t (r_open m1)) as [w|] eqn:E1.
  - rewrite lookup_app, E1. rewrite (drop_app_in _ _ _ _ E1). auto.
  - rewrite lookup_app, E1. rewrite (drop_app_notin _ _ _ E1).
    destruct (lookup t (r_susp m1)) as [w|] eqn:E2; [auto|]. now rewrite (drop_notin _ _ E2).
Qed.

Lemma runR_snoc md c F ops o fs0 : runR md c F (ops ++ [o]) fs0 = stepR md c F (runR md c F ops fs0) o.
Proof. unfold runR. now rewrite fold_left_app. Qed.

Lemma errR_monotone md c F m o : r_err (stepR md c F m o) = false -> r_err m = false.
Proof. unfold stepR. destruct (r_err m) eqn:E; [now rewrite E|reflexivity]. Qed.

Record syncR (md : mode) (F : fmt) (fs0 : fstore) (ops : list op) (m : mgrR) : Prop := {
  sr_nodup : NoDup (names (comb m));
  sr_open : forall t, touched t ops = true ->
            exists its ws, wrun F WFresh (events_of t ops) = Some (its, ws) /\
                           lookup t (comb m) = Some ws /\ r_fs m t = base md fs0 t ++ its;
  sr_rest : forall t, touched t ops = false -> r_fs m t = fs0 t /\ lookup t (comb m) = None
}.

Lemma syncR_step md c F fs0 ops o m :
  syncR md F fs0 ops m -> r_err (stepR md c F m o) = false -> syncR md F fs0 (ops ++ [o]) (stepR md c F m o).
Proof.
  intros S He. pose proof (errR_monotone _ _ _ _ _ He) as He0. destruct o as [t e].
  pose proof (acquireR_view md c t m) as Hv.
  unfold stepR in *. rewrite He0 in *.
  destruct (acquireR md c t m) as [[[ws0 rest] susp] fs]. destruct Hv as (Hcomb & Hws & Hfs).
  (* state and file of t before the write *)
  assert (Hpre : exists its0, wrun F WFresh (events_of t ops) = Some (its0, ws0) /\ fs t = base md fs0 t ++ its0 /\
                              (forall x, x <> t -> fs x = r_fs m x)).
  { destruct (touched t ops) eqn:Ht.
    - destruct (sr_open _ _ _ _ _ S t Ht) as (its0 & w & Hw & Hl & Hf). rewrite Hl in Hws, Hfs. subst ws0 fs. eauto.
    - destruct (sr_rest _ _ _ _ _ S t Ht) as [Hf Hl]. rewrite Hl in Hws, Hfs. subst ws0.
      rewrite (events_untouched _ _ Ht). exists []. cbn. split; [reflexivity|]. rewrite app_nil_r. unfold base. subst fs.
      destruct (is_append md); [split; [exact Hf|reflexivity]|]. split; [apply upd_same|]. intros x Hx. now apply upd_other. }
  destruct Hpre as (its0 & Hw & Hft & Hoth).
  assert (Hst : exists its ws',
             (match e with
              | ERec r => match w_rec F ws0 r with
                          | Some (its, ws') => MgrR ((t, ws') :: rest) susp (upd t (fs t ++ its) fs) false
                          | None => MgrR ((t, ws0) :: rest) susp fs true
                          end
              | EStr s => MgrR ((t, ws0) :: rest) susp (upd t (fs t ++ [IRaw s]) fs) false
              end) = MgrR ((t, ws') :: rest) susp (upd t (fs t ++ its) fs) false /\
             wrun F WFresh (events_of t ops ++ [e]) = Some (its0 ++ its, ws')).
  { rewrite wrun_snoc, Hw. destruct e as [r|s].
    - destruct (w_rec F ws0 r) as [[its ws']|]; [eauto|cbn in He; discriminate].
    - eauto. }
  destruct Hst as (its & ws' & Es & Hw'). rewrite Es in *. clear Es.
  destruct (drop_nodup t (comb m) (sr_nodup _ _ _ _ _ S)) as [Hnd Hni].
  split; unfold comb; cbn [r_open r_susp r_fs]; rewrite <- ?app_comm_cons, ?Hcomb.
  - cbn. constructor; assumption.
  - intros x Hx. rewrite touched_snoc in Hx. rewrite events_snoc. destruct (beqb_spec x t) as [Ext|Hxt]; [subst x|].
    + exists (its0 ++ its), ws'. split; [exact Hw'|]. cbn. rewrite beqb_refl. split; [reflexivity|].
      now rewrite upd_same, Hft, app_assoc.
    + rewrite orb_false_r in Hx. destruct (sr_open _ _ _ _ _ S x Hx) as (i & w & H1 & H2 & H3).
      exists i, w. rewrite app_nil_r. split; [exact H1|]. cbn. apply beqb_neq in Hxt as Hb. rewrite Hb.
      rewrite lookup_drop_other, upd_other, Hoth by exact Hxt. auto.
  - intros x Hx. rewrite touched_snoc in Hx. apply orb_false_iff in Hx. destruct Hx as [Hx Hb].
    destruct (sr_rest _ _ _ _ _ S x Hx) as [Hf Hl]. cbn. rewrite Hb. apply beqb_neq in Hb.
    rewrite lookup_drop_other, upd_other, Hoth by exact Hb. auto.
Qed.

Lemma runR_sync md c F fs0 ops :
  r_err (runR md c F ops fs0) = false -> syncR md F fs0 ops (runR md c F ops fs0).
Proof.
  induction ops as [|o ops IH] using rev_ind; intros He.
  - split; cbn; [constructor| |auto]. intros t H. discriminate.
  - rewrite runR_snoc in *. apply syncR_step; [|exact He]. apply IH. eapply errR_monotone; eauto.
Qed.

Theorem one_document_repaired md c F ops fs0 :
  r_err (runR md c F ops fs0) = false ->
  forall t,
  (touched t ops = true ->
   exists d, single_doc F (events_of t ops) = Some d /\ finalR md c F ops fs0 t = base md fs0 t ++ d) /\
  (touched t ops = false -> finalR md c F ops fs0 t = fs0 t).
Proof.
  intros He t. pose proof (runR_sync md c F fs0 ops He) as S. unfold finalR.
  rewrite close_all_view by (cbn; apply (sr_nodup _ _ _ _ _ S)). cbn [m_fs m_open]. fold (comb (runR md c F ops fs0)).
  split; intros Ht.
  - destruct (sr_open _ _ _ _ _ S t Ht) as (its & ws & Hw & Hl & Hf).
    rewrite Hl, Hf. unfold single_doc. rewrite Hw. eexists. split; [reflexivity|]. now rewrite app_assoc.
  - destruct (sr_rest _ _ _ _ _ S t Ht) as [Hf Hl]. now rewrite Hl, Hf, app_nil_r.
Qed.

(* the repaired manager on the refutation witness: one header *)
Lemma repaired_on_witness :
  let ops := witness_ops 256 in
  r_err (runR MWrite 256 FCsv ops empty_store) = false /\
  count is_header (finalR MWrite 256 FCsv ops empty_store (wname 0)) = 1 /\
  count is_open (finalR MWrite 256 FJson ops empty_store (wname 0)) = 1 /\
  count is_close (finalR MWrite 256 FJson ops empty_store (wname 0)) = 1.
Proof. cbn zeta. repeat split; vm_compute; reflexivity. Qed.

(* XTAB beyond the capacity: the re-opened writer does not know a record was written before, the separating empty
   line is missing and the two records read back as ONE (capacity 1, targets Aa Ab Aa) *)
Lemma witness_xtab_small :
  render FXtab (final MWrite 1 FXtab (witness_ops 1) empty_store (wname 0)) = B "a 0
b x
a 1
b x
" /\ (forall d, single_doc FXtab (events_of (wname 0) (witness_ops 1)) = Some d -> render FXtab d = B "a 0
b x

a 1
b x
").
Proof. split; [vm_compute; reflexivity|]. intros d H. vm_compute in H. inversion H. vm_compute. reflexivity. Qed.
