(* C20 -- the YAML record writer (pkg/output/record_writer_yaml.go) as streaming machines for the writer-generic manager.
   List mode (default, WrapYAMLOutputInOuterList): every record is BUFFERED and the whole sequence is marshalled at end of stream
   -- all of the target's bytes are end-of-stream output, so a handler that was suspended (evicted) and never revisited still owes
   its file everything at Close().  Multi-document mode: "---" before every document but the first.
   The marshaller (gopkg.in/yaml.v3) is a parameter: the theorems hold for every marshalling function. *)
From Miller Require Import Base.Bytes Base.Record C20.Model C20.Generic.
Open Scope list_scope.

Section Yaml.
  Variable marshal_seq : list record -> bytes.     (* yaml.Marshal of the sequence node *)
  Variable marshal_doc : record -> bytes.           (* yaml.Marshal of one mapping *)

  Definition W_yaml_list : swriter :=
    SW (list record) [] (fun st r => Some ([], st ++ [r])) marshal_seq.

  Definition W_yaml_docs : swriter :=
    SW bool false (fun wrote r => Some ((if wrote then B "---" ++ ["010"%char] else []) ++ marshal_doc r, true)) (fun _ => []).

  Lemma srun_yaml_list recs : forall st,
    srun W_yaml_list st (map ERec recs) = Some ([], st ++ recs).
  Proof.
    induction recs as [|r t IH]; intros st; cbn.
    - now rewrite app_nil_r.
    - rewrite IH. now rewrite <- app_assoc.
  Qed.

  Theorem W_yaml_list_doc recs : sdoc W_yaml_list (map ERec recs) = Some (marshal_seq recs).
  Proof. unfold sdoc. cbn [sw_init W_yaml_list]. now rewrite srun_yaml_list. Qed.

  (* nothing reaches the file before end of stream: whatever the history, a list-mode YAML target is written at Close() only *)
  Theorem yaml_list_writes_only_at_close st r : exists st', sw_rec W_yaml_list st r = Some ([], st').
  Proof. eexists. reflexivity. Qed.
End Yaml.
