(* C20 -- the repaired output-handler manager over an ARBITRARY streaming record writer.

   Model.mgrR / runR / finalR fix seven formats and an item alphabet; here the same manager (same code path:
   getOutputHandlerFor = hit / suspend lruTail when at capacity / resume a suspended handler / new handler) is
   parametric in the record writer, given as a state machine
        sw_init                      Create(recordWriterOptions)
        sw_rec st r = Some (bytes, st')   IRecordWriter.Write(outrec, ...)   (None = the writer returns an error)
        sw_end st                    IRecordWriter.Write(nil, ...)       (end of stream, once, at Close())
   and files are BYTES.  The writers of pkg/output (CSV, TSV, csvlite, JSON with/without list wrap and vstack, JSON
   Lines, DKVP, NIDX, XTAB, PPRINT incl. barred/right/headerless, markdown streaming and aligned) are instances
   (C20/Writers.v), each proved equal to C01's whole-document writer function. *)
From Miller Require Import Base.Bytes Base.Record C20.Model C20.Proofs.
From Coq Require Import Arith PeanoNat Lia.
Open Scope list_scope.

Record swriter := SW {
  sw_st : Type;
  sw_init : sw_st;
  sw_rec : sw_st -> record -> option (bytes * sw_st);
  sw_end : sw_st -> bytes
}.

Definition bstore := target -> bytes.
Definition bupd (t : target) (v : bytes) (f : bstore) : bstore := fun t' => if beqb t' t then v else f t'.

Section G.
  Variable W : swriter.
  Notation S := (sw_st W).
  Definition hl := list (target * S).

  Fixpoint glookup (t : target) (l : hl) : option S :=
    match l with
    | [] => None
    | (t', s) :: r => if beqb t t' then Some s else glookup t r
    end.

  Fixpoint gdrop (t : target) (l : hl) : hl :=
    match l with
    | [] => []
    | (t', s) :: r => if beqb t t' then r else (t', s) :: gdrop t r
    end.

  Record mgrG := MgrG { g_open : hl; g_susp : hl; g_fs : bstore; g_err : bool }.

  (* FileOutputHandler.suspend() on lruTail: flush + close the file, keep the handler with its record writer *)
  Definition evict_lastG (m : mgrG) : mgrG :=
    match split_last (g_open m) with
    | Some (rest, x) => MgrG rest (x :: g_susp m) (g_fs m) (g_err m)
    | None => m
    end.

  Definition make_roomG (md : mode) (c : nat) (t : target) (m : mgrG) : mgrG :=
    match glookup t (g_open m) with
    | Some _ => m
    | None => if is_pipe md then m else if Nat.leb c (List.length (g_open m)) then evict_lastG m else m
    end.

  Definition acquireG (md : mode) (c : nat) (t : target) (m : mgrG) : S * hl * hl * bstore :=
    let m1 := make_roomG md c t m in
    match glookup t (g_open m1) with
    | Some s => (s, gdrop t (g_open m1), g_susp m1, g_fs m1)
    | None =>
        match glookup t (g_susp m1) with
        | Some s => (s, g_open m1, gdrop t (g_susp m1), g_fs m1)            (* resume(): O_APPEND, same writer *)
        | None => (sw_init W, g_open m1, g_susp m1, if is_append md then g_fs m1 else bupd t [] (g_fs m1))
        end
    end.

  Definition stepG (md : mode) (c : nat) (m : mgrG) (o : op) : mgrG :=
    if g_err m then m else
    let '(t, e) := o in
    let '(s, rest, susp, fs) := acquireG md c t m in
    match e with
    | ERec r =>
        match sw_rec W s r with
        | Some (out, s') => MgrG ((t, s') :: rest) susp (bupd t (fs t ++ out) fs) false
        | None => MgrG ((t, s) :: rest) susp fs true
        end
    | EStr x => MgrG ((t, s) :: rest) susp (bupd t (fs t ++ x) fs) false
    end.

  Definition runG (md : mode) (c : nat) (ops : list op) (fs0 : bstore) : mgrG :=
    fold_left (stepG md c) ops (MgrG [] [] fs0 false).

  (* MultiOutputHandlerManager.Close(): every handler, open or suspended, ends its document *)
  Definition close_allG (l : hl) (fs : bstore) : bstore :=
    fold_left (fun fs '(t, s) => bupd t (fs t ++ sw_end W s) fs) l fs.

  Definition finalG (md : mode) (c : nat) (ops : list op) (fs0 : bstore) : bstore :=
    let m := runG md c ops fs0 in close_allG (g_open m ++ g_susp m) (g_fs m).

  (* the reference: ONE writer over the target's own events *)
  Fixpoint srun (s : S) (evs : list event) : option (bytes * S) :=
    match evs with
    | [] => Some ([], s)
    | ERec r :: t =>
        match sw_rec W s r with
        | Some (o, s1) => match srun s1 t with Some (o', s2) => Some (o ++ o', s2) | None => None end
        | None => None
        end
    | EStr x :: t => match srun s t with Some (o', s2) => Some (x ++ o', s2) | None => None end
    end.

  Definition sdoc (evs : list event) : option bytes :=
    match srun (sw_init W) evs with Some (o, s) => Some (o ++ sw_end W s) | None => None end.

  Definition gbase (md : mode) (fs0 : bstore) (t : target) : bytes := if is_append md then fs0 t else [].

  (* ------------------------------------------------------------ small facts *)
  Definition gnames (l : hl) : list target := map fst l.

  Lemma bupd_same t v f : bupd t v f t = v.
  Proof. unfold bupd. now rewrite beqb_refl. Qed.
  Lemma bupd_other t v f x : x <> t -> bupd t v f x = f x.
  Proof. unfold bupd. intros H. apply beqb_neq in H. now rewrite H. Qed.

  Lemma glookup_none t l : glookup t l = None <-> ~ In t (gnames l).
  Proof.
    induction l as [|[t' w] l IH]; cbn; [tauto|].
    destruct (beqb_spec t t') as [->|Hne].
    - split; [discriminate|]. intros H. exfalso. apply H. now left.
    - rewrite IH. split; intros H; [intros [E|E]; [congruence|tauto]|tauto].
  Qed.

  Lemma gnames_drop_in x t l : In x (gnames (gdrop t l)) -> In x (gnames l).
  Proof.
    induction l as [|[t' w] l IH]; cbn; [tauto|].
    destruct (beqb t t'); cbn; [tauto|]. intros [E|E]; [now left|right; auto].
  Qed.

  Lemma gdrop_nodup t l : NoDup (gnames l) -> NoDup (gnames (gdrop t l)) /\ ~ In t (gnames (gdrop t l)).
  Proof.
    induction l as [|[t' w] l IH]; cbn; intros Hnd; [split; [constructor|tauto]|].
    inversion Hnd as [|? ? Hni Hnd']; subst.
    destruct (beqb_spec t t') as [->|Hne]; [split; assumption|].
    destruct (IH Hnd') as [H1 H2]. cbn. split.
    - constructor; [|exact H1]. intros Hin. apply Hni. eapply gnames_drop_in; eauto.
    - intros [E|E]; [congruence|tauto].
  Qed.

  Lemma glookup_drop_other x t l : x <> t -> glookup x (gdrop t l) = glookup x l.
  Proof.
    intros Hne. induction l as [|[t' w'] l IH]; cbn; [reflexivity|].
    destruct (beqb_spec t t') as [->|Hn]; cbn.
    - destruct (beqb_spec x t'); [congruence|reflexivity].
    - destruct (beqb x t'); auto.
  Qed.

  Lemma glookup_app t a b : glookup t (a ++ b) = match glookup t a with Some w => Some w | None => glookup t b end.
  Proof. induction a as [|[t' w] a IH]; cbn; [reflexivity|]. destruct (beqb t t'); auto. Qed.

  Lemma gdrop_app_in t a b w : glookup t a = Some w -> gdrop t (a ++ b) = gdrop t a ++ b.
  Proof.
    induction a as [|[t' w'] a IH]; cbn; [discriminate|]. destruct (beqb t t'); [reflexivity|]. intros H. cbn. f_equal. auto.
  Qed.

  Lemma gdrop_app_notin t a b : glookup t a = None -> gdrop t (a ++ b) = a ++ gdrop t b.
  Proof.
    induction a as [|[t' w'] a IH]; cbn; [reflexivity|]. destruct (beqb t t'); [discriminate|]. intros H. cbn. f_equal. auto.
  Qed.

  Lemma gdrop_notin t l : glookup t l = None -> gdrop t l = l.
  Proof.
    induction l as [|[t' w'] l IH]; cbn; [reflexivity|]. destruct (beqb t t'); [discriminate|]. intros H. f_equal. auto.
  Qed.

  Definition gcomb (m : mgrG) : hl := g_open m ++ g_susp m.

  Lemma make_roomG_comb md c t m :
    gcomb (make_roomG md c t m) = gcomb m /\ g_fs (make_roomG md c t m) = g_fs m /\ g_err (make_roomG md c t m) = g_err m.
  Proof.
    unfold make_roomG. destruct (glookup t (g_open m)); [auto|]. destruct (is_pipe md); [auto|].
    destruct (Nat.leb c (List.length (g_open m))); [|auto]. unfold evict_lastG.
    destruct (split_last (g_open m)) as [[rest x]|] eqn:E; [|auto].
    apply split_last_spec in E. unfold gcomb. cbn. rewrite E, <- app_assoc. auto.
  Qed.

  Lemma acquireG_view md c t m :
    let '(s, rest, susp, fs) := acquireG md c t m in
    rest ++ susp = gdrop t (gcomb m) /\
    s = match glookup t (gcomb m) with Some w => w | None => sw_init W end /\
    fs = match glookup t (gcomb m) with
         | Some _ => g_fs m
         | None => if is_append md then g_fs m else bupd t [] (g_fs m)
         end.
  Proof.
    unfold acquireG. destruct (make_roomG_comb md c t m) as (Hc & Hf & _).
    set (m1 := make_roomG md c t m) in *. rewrite <- Hc, <- Hf. unfold gcomb.
    destruct (glookup t (g_open m1)) as [w|] eqn:E1.
    - rewrite glookup_app, E1. rewrite (gdrop_app_in _ _ _ _ E1). auto.
    - rewrite glookup_app, E1. rewrite (gdrop_app_notin _ _ _ E1).
      destruct (glookup t (g_susp m1)) as [w|] eqn:E2; [auto|]. now rewrite (gdrop_notin _ _ E2).
  Qed.

  Lemma runG_snoc md c ops o fs0 : runG md c (ops ++ [o]) fs0 = stepG md c (runG md c ops fs0) o.
  Proof. unfold runG. now rewrite fold_left_app. Qed.

  Lemma errG_monotone md c m o : g_err (stepG md c m o) = false -> g_err m = false.
  Proof. unfold stepG. destruct (g_err m) eqn:E; [now rewrite E|reflexivity]. Qed.

  Lemma srun_snoc s evs e :
    srun s (evs ++ [e]) =
    match srun s evs with
    | Some (o, s1) =>
        match e with
        | ERec r => match sw_rec W s1 r with Some (o2, s2) => Some (o ++ o2, s2) | None => None end
        | EStr x => Some (o ++ x, s1)
        end
    | None => None
    end.
  Proof.
    revert s. induction evs as [|[r|x] evs IH]; intros s; cbn.
    - destruct e as [r|x]; cbn; [|now rewrite app_nil_r]. destruct (sw_rec W s r) as [[o2 s2]|]; [now rewrite app_nil_r|reflexivity].
    - destruct (sw_rec W s r) as [[o1 s1]|]; [|reflexivity]. rewrite IH.
      destruct (srun s1 evs) as [[o s2]|]; [|reflexivity].
      destruct e as [r'|x']; [destruct (sw_rec W s2 r') as [[o3 s3]|]|]; now rewrite ?app_assoc.
    - rewrite IH. destruct (srun s evs) as [[o s2]|]; [|reflexivity].
      destruct e as [r'|x']; [destruct (sw_rec W s2 r') as [[o3 s3]|]|]; now rewrite ?app_assoc.
  Qed.

  Lemma close_allG_view l fs t :
    NoDup (gnames l) ->
    close_allG l fs t = fs t ++ match glookup t l with Some s => sw_end W s | None => [] end.
  Proof.
    unfold close_allG. revert fs. induction l as [|[t' w'] l IH]; intros fs Hnd; cbn.
    - now rewrite app_nil_r.
    - inversion Hnd as [|? ? Hni Hnd']; subst. rewrite IH by exact Hnd'.
      destruct (beqb_spec t t') as [->|Hne].
      + rewrite bupd_same. apply glookup_none in Hni. now rewrite Hni, app_nil_r.
      + rewrite bupd_other by exact Hne. reflexivity.
  Qed.

  (* ------------------------------------------------------------ the invariant: every touched target's handler (open or suspended)
     holds the state of ONE writer run over the target's own events, and the file holds base ++ that writer's output so far *)
  Record syncG (md : mode) (fs0 : bstore) (ops : list op) (m : mgrG) : Prop := {
    sg_nodup : NoDup (gnames (gcomb m));
    sg_open : forall t, touched t ops = true ->
              exists o s, srun (sw_init W) (events_of t ops) = Some (o, s) /\
                          glookup t (gcomb m) = Some s /\ g_fs m t = gbase md fs0 t ++ o;
    sg_rest : forall t, touched t ops = false -> g_fs m t = fs0 t /\ glookup t (gcomb m) = None
  }.

  Lemma syncG_step md c fs0 ops o m :
    syncG md fs0 ops m -> g_err (stepG md c m o) = false -> syncG md fs0 (ops ++ [o]) (stepG md c m o).
  Proof.
    intros Sy He. pose proof (errG_monotone _ _ _ _ He) as He0. destruct o as [t e].
    pose proof (acquireG_view md c t m) as Hv.
    unfold stepG in *. rewrite He0 in *.
    destruct (acquireG md c t m) as [[[s0 rest] susp] fs]. destruct Hv as (Hcomb & Hws & Hfs).
    assert (Hpre : exists o0, srun (sw_init W) (events_of t ops) = Some (o0, s0) /\ fs t = gbase md fs0 t ++ o0 /\
                              (forall x, x <> t -> fs x = g_fs m x)).
    { destruct (touched t ops) eqn:Ht.
      - destruct (sg_open _ _ _ _ Sy t Ht) as (o0 & w & Hw & Hl & Hf). rewrite Hl in Hws, Hfs. subst s0 fs. eauto.
      - destruct (sg_rest _ _ _ _ Sy t Ht) as [Hf Hl]. rewrite Hl in Hws, Hfs. subst s0.
        rewrite (events_untouched _ _ Ht). exists []. cbn. split; [reflexivity|]. rewrite app_nil_r. unfold gbase. subst fs.
        destruct (is_append md); [split; [exact Hf|reflexivity]|]. split; [apply bupd_same|]. intros x Hx. now apply bupd_other. }
    destruct Hpre as (o0 & Hw & Hft & Hoth).
    assert (Hst : exists out s',
               (match e with
                | ERec r => match sw_rec W s0 r with
                            | Some (out, s') => MgrG ((t, s') :: rest) susp (bupd t (fs t ++ out) fs) false
                            | None => MgrG ((t, s0) :: rest) susp fs true
                            end
                | EStr x => MgrG ((t, s0) :: rest) susp (bupd t (fs t ++ x) fs) false
                end) = MgrG ((t, s') :: rest) susp (bupd t (fs t ++ out) fs) false /\
               srun (sw_init W) (events_of t ops ++ [e]) = Some (o0 ++ out, s')).
    { rewrite srun_snoc, Hw. destruct e as [r|x].
      - destruct (sw_rec W s0 r) as [[out s']|]; [eauto|cbn in He; discriminate].
      - eauto. }
    destruct Hst as (out & s' & Es & Hw'). rewrite Es in *. clear Es.
    destruct (gdrop_nodup t (gcomb m) (sg_nodup _ _ _ _ Sy)) as [Hnd Hni].
    split; unfold gcomb; cbn [g_open g_susp g_fs]; rewrite <- ?app_comm_cons, ?Hcomb.
    - cbn. constructor; assumption.
    - intros x Hx. rewrite touched_snoc in Hx. rewrite events_snoc. destruct (beqb_spec x t) as [Ext|Hxt]; [subst x|].
      + exists (o0 ++ out), s'. split; [exact Hw'|]. cbn. rewrite beqb_refl. split; [reflexivity|].
        now rewrite bupd_same, Hft, app_assoc.
      + rewrite orb_false_r in Hx. destruct (sg_open _ _ _ _ Sy x Hx) as (i & w & H1 & H2 & H3).
        exists i, w. rewrite app_nil_r. split; [exact H1|]. cbn. apply beqb_neq in Hxt as Hb. rewrite Hb.
        rewrite glookup_drop_other, bupd_other, Hoth by exact Hxt. auto.
    - intros x Hx. rewrite touched_snoc in Hx. apply orb_false_iff in Hx. destruct Hx as [Hx Hb].
      destruct (sg_rest _ _ _ _ Sy x Hx) as [Hf Hl]. cbn. rewrite Hb. apply beqb_neq in Hb.
      rewrite glookup_drop_other, bupd_other, Hoth by exact Hb. auto.
  Qed.

  Lemma runG_sync md c fs0 ops :
    g_err (runG md c ops fs0) = false -> syncG md fs0 ops (runG md c ops fs0).
  Proof.
    induction ops as [|o ops IH] using rev_ind; intros He.
    - split; cbn; [constructor| |auto]. intros t H. discriminate.
    - rewrite runG_snoc in *. apply syncG_step; [|exact He]. apply IH. eapply errG_monotone; eauto.
  Qed.

  (* ONE document per target, whatever the writer: any number of targets, any capacity, any revisit pattern, any mode *)
  Theorem one_document_generic md c ops fs0 :
    g_err (runG md c ops fs0) = false ->
    forall t,
    (touched t ops = true ->
     exists d, sdoc (events_of t ops) = Some d /\ finalG md c ops fs0 t = gbase md fs0 t ++ d) /\
    (touched t ops = false -> finalG md c ops fs0 t = fs0 t).
  Proof.
    intros He t. pose proof (runG_sync md c fs0 ops He) as Sy. unfold finalG.
    rewrite close_allG_view by (apply (sg_nodup _ _ _ _ Sy)). fold (gcomb (runG md c ops fs0)).
    split; intros Ht.
    - destruct (sg_open _ _ _ _ Sy t Ht) as (o & s & Hw & Hl & Hf).
      rewrite Hl, Hf. unfold sdoc. rewrite Hw. eexists. split; [reflexivity|]. now rewrite app_assoc.
    - destruct (sg_rest _ _ _ _ Sy t Ht) as [Hf Hl]. now rewrite Hl, Hf, app_nil_r.
  Qed.

  (* the manager reports an error exactly when ONE writer over some target's own events does: the error is the writer's
     (CSV/TSV schema change), never an artefact of eviction *)
  Lemma srun_prefix_ok s a b : srun s (a ++ b) <> None -> srun s a <> None.
  Proof.
    revert s. induction a as [|[r|x] a IH]; intros s; cbn; [discriminate| |].
    - destruct (sw_rec W s r) as [[o s1]|]; [|auto]. specialize (IH s1).
      destruct (srun s1 (a ++ b)) as [[o' s2]|]; [|intros H; now elim H].
      intros _. destruct (srun s1 a) as [[? ?]|]; [discriminate|]. exfalso. apply IH; [discriminate|reflexivity].
    - specialize (IH s). destruct (srun s (a ++ b)) as [[o' s2]|]; [|intros H; now elim H].
      intros _. destruct (srun s a) as [[? ?]|]; [discriminate|]. exfalso. apply IH; [discriminate|reflexivity].
  Qed.

  Theorem no_error_when_documents_exist md c ops fs0 :
    (forall t, sdoc (events_of t ops) <> None) -> g_err (runG md c ops fs0) = false.
  Proof.
    induction ops as [|o ops IH] using rev_ind; intros Hd; [reflexivity|].
    assert (Hd0 : forall t, sdoc (events_of t ops) <> None).
    { intros t. specialize (Hd t). destruct o as [t' e]. rewrite events_snoc in Hd. unfold sdoc in *.
      destruct (srun (sw_init W) (events_of t ops)) as [[? ?]|] eqn:E; [discriminate|].
      exfalso. apply Hd. pose proof (srun_prefix_ok (sw_init W) (events_of t ops) (if beqb t t' then [e] else [])) as Hp.
      destruct (srun (sw_init W) (events_of t ops ++ (if beqb t t' then [e] else []))) as [[? ?]|]; [|reflexivity].
      exfalso. apply Hp; [discriminate|exact E]. }
    specialize (IH Hd0). pose proof (runG_sync md c fs0 ops IH) as Sy.
    rewrite runG_snoc. destruct o as [t e]. specialize (Hd t). rewrite events_snoc, beqb_refl in Hd.
    unfold sdoc in Hd. rewrite srun_snoc in Hd.
    pose proof (acquireG_view md c t (runG md c ops fs0)) as Hv.
    unfold stepG. rewrite IH. destruct (acquireG md c t (runG md c ops fs0)) as [[[s0 rest] susp] fs].
    destruct Hv as (_ & Hs & _). destruct e as [r|x]; [|reflexivity].
    assert (Hs0 : srun (sw_init W) (events_of t ops) = Some (match srun (sw_init W) (events_of t ops) with Some (o, _) => o | None => [] end, s0)).
    { destruct (touched t ops) eqn:Ht.
      - destruct (sg_open _ _ _ _ Sy t Ht) as (o & s & Hw & Hl & _). rewrite Hl in Hs. subst s0. now rewrite Hw.
      - destruct (sg_rest _ _ _ _ Sy t Ht) as [_ Hl]. rewrite Hl in Hs. subst s0. now rewrite (events_untouched _ _ Ht). }
    rewrite Hs0 in Hd. destruct (sw_rec W s0 r) as [[out s']|]; [reflexivity|]. now elim Hd.
  Qed.
End G.

Arguments MgrG {W}.
Arguments g_open {W}. Arguments g_susp {W}. Arguments g_fs {W}. Arguments g_err {W}.
