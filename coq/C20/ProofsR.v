(* C20 proofs, part 9: the manager as repaired (Model.runR / finalR -- the model tied to the implementation):
   LRU bookkeeping, true-LRU victim, routing, append mode.  Builds on the syncR invariant of Proofs.v part 8. *)
From Miller Require Import Base.Record C20.Model C20.Proofs.
From Coq Require Import Arith PeanoNat Lia.
Open Scope list_scope.

Lemma NoDup_app_l {A} (a b : list A) : NoDup (a ++ b) -> NoDup a.
Proof.
  induction a as [|x a IH]; cbn; intros H; [constructor|]. inversion H as [|? ? Hni Hnd]; subst.
  constructor; [|now apply IH]. intros Hin. apply Hni. apply in_or_app. now left.
Qed.

Lemma NoDup_app_r {A} (a b : list A) : NoDup (a ++ b) -> NoDup b.
Proof. induction a as [|x a IH]; cbn; intros H; [exact H|]. inversion H; subst. now apply IH. Qed.

Lemma NoDup_app_disj {A} (a b : list A) x : NoDup (a ++ b) -> In x a -> ~ In x b.
Proof.
  induction a as [|y a IH]; cbn; intros H Hin; [contradiction|]. inversion H as [|? ? Hni Hnd]; subst.
  destruct Hin as [->|Hin]; [|now apply IH]. intros Hb. apply Hni. apply in_or_app. now right.
Qed.

(* names of the other open handlers after getOutputHandlerFor (repaired manager): same function of the open list *)
Lemma acquireR_names md c t m :
  NoDup (names (r_open m)) ->
  let '(ws, rest, susp, fs) := acquireR md c t m in
  names rest =
  match lookup t (r_open m) with
  | Some _ => rm t (names (r_open m))
  | None => if is_pipe md then names (r_open m)
            else if Nat.leb c (len (r_open m)) then removelast (names (r_open m)) else names (r_open m)
  end.
Proof.
  intros Hnd. unfold acquireR, make_roomR.
  destruct (lookup t (r_open m)) as [w|] eqn:El.
  - rewrite El. now apply names_drop_rm.
  - destruct (is_pipe md).
    { rewrite El. destruct (lookup t (r_susp m)); reflexivity. }
    destruct (Nat.leb c (len (r_open m))).
    2:{ rewrite El. destruct (lookup t (r_susp m)); reflexivity. }
    unfold evict_lastR. destruct (split_last (r_open m)) as [[rest x]|] eqn:E.
    + cbn [r_open r_susp r_fs]. apply split_last_spec in E.
      assert (Hl : lookup t rest = None).
      { apply lookup_none. intros Hin. apply lookup_none in El. apply El. rewrite E, names_app. apply in_or_app. now left. }
      rewrite Hl, E, names_app. cbn [names map]. rewrite removelast_last.
      destruct (lookup t (x :: r_susp m)); reflexivity.
    + rewrite El. apply split_last_none in E. rewrite E. destruct (lookup t (r_susp m)); reflexivity.
Qed.

Lemma stepR_names md c F m t e :
  r_err m = false -> r_err (stepR md c F m (t, e)) = false ->
  names (r_open (stepR md c F m (t, e))) = t :: (let '(ws, rest, susp, fs) := acquireR md c t m in names rest).
Proof.
  intros He0 He. unfold stepR in *. rewrite He0 in *.
  destruct (acquireR md c t m) as [[[ws rest] susp] fs]. destruct e as [r|s]; [|reflexivity].
  destruct (w_rec F ws r) as [[its ws']|]; [reflexivity|cbn in He; discriminate].
Qed.

(* true LRU, repaired manager *)
Theorem open_is_most_recent_R md c F ops fs0 :
  is_pipe md = false -> r_err (runR md c F ops fs0) = false ->
  names (r_open (runR md c F ops fs0)) = firstn (Nat.max c 1) (recency (targets_of ops)).
Proof.
  intros Hp. induction ops as [|o ops IH] using rev_ind; intros He.
  - cbn. now destruct (Nat.max c 1).
  - rewrite runR_snoc in *. pose proof (errR_monotone _ _ _ _ _ He) as He0. specialize (IH He0).
    pose proof (runR_sync md c F fs0 ops He0) as Sy. set (m := runR md c F ops fs0) in *.
    assert (Hnd : NoDup (names (r_open m))).
    { pose proof (sr_nodup _ _ _ _ _ Sy) as H. unfold comb in H. rewrite names_app in H. eapply NoDup_app_l; eauto. }
    destruct o as [t e]. rewrite targets_snoc, recency_snoc. cbn [fst].
    set (L := recency (targets_of ops)) in *. set (C := Nat.max c 1) in *.
    assert (HC : C = S (C - 1)) by (unfold C; lia).
    rewrite (stepR_names md c F m t e He0 He).
    pose proof (acquireR_names md c t m Hnd) as Ha.
    destruct (acquireR md c t m) as [[[ws rest] susp] fs]. rewrite Ha, Hp. clear Ha.
    rewrite HC at 1. cbn [firstn]. f_equal.
    pose proof (recency_nodup (targets_of ops)) as HndL. fold L in HndL.
    destruct (lookup t (r_open m)) as [w|] eqn:El.
    + rewrite IH. apply rm_firstn_in; [exact HndL|]. rewrite <- IH. eapply lookup_some_in; eauto.
    + apply lookup_none in El. rewrite IH in El.
      assert (Hlen : len (r_open m) = len (firstn C L)) by (rewrite <- IH; unfold names; now rewrite map_length).
      destruct (Nat.leb c (len (r_open m))) eqn:Ec.
      * apply Nat.leb_le in Ec. rewrite IH.
        destruct (Nat.eq_dec (len (firstn C L)) 0) as [Hz|Hnz].
        -- assert (HL0 : L = []).
           { destruct L as [|y L']; [reflexivity|]. rewrite HC in Hz. discriminate. }
           rewrite HL0. cbn. now rewrite !firstn_nil.
        -- assert (HlenC : len (firstn C L) = C).
           { pose proof (firstn_le_length C L) as Hcap. rewrite Hlen in Ec. unfold C in *. lia. }
           rewrite HC in HlenC. rewrite HC at 1. rewrite removelast_firstn_len by exact HlenC.
           symmetry. apply firstn_rm_notin. intros Hin. apply El. rewrite HC.
           now apply firstn_In_S.
      * apply Nat.leb_gt in Ec. rewrite IH.
        assert (HL : firstn C L = L).
        { apply firstn_all2. rewrite Hlen in Ec. destruct (Nat.le_gt_cases (len L) C) as [H|H]; [exact H|].
          rewrite firstn_length_le in Ec by lia. unfold C in *. lia. }
        rewrite HL in *. rewrite (rm_notin t L El).
        symmetry. apply firstn_all2. rewrite Hlen in Ec. unfold C in *. lia.
Qed.

(* the LRU bookkeeping invariant of the repaired manager *)
Theorem lru_invariant_R md c F ops fs0 :
  let m := runR md c F ops fs0 in
  r_err m = false ->
  NoDup (names (r_open m)) /\ NoDup (names (r_susp m)) /\
  (is_pipe md = false -> len (r_open m) <= Nat.max c 1) /\
  (forall t, In t (names (r_susp m)) -> ~ In t (names (r_open m))) /\
  (forall t, In t (targets_of ops) <-> In t (names (r_open m)) \/ In t (names (r_susp m))).
Proof.
  cbn zeta. intros He. pose proof (runR_sync md c F fs0 ops He) as S. set (m := runR md c F ops fs0) in *.
  pose proof (sr_nodup _ _ _ _ _ S) as Hnd. unfold comb in Hnd. rewrite names_app in Hnd.
  split; [eapply NoDup_app_l; eauto|]. split; [eapply NoDup_app_r; eauto|]. split; [|split].
  - intros Hp. pose proof (open_is_most_recent_R md c F ops fs0 Hp He) as Ho. fold m in Ho.
    assert (Hl : len (r_open m) = len (names (r_open m))) by (unfold names; now rewrite map_length).
    rewrite Hl, Ho. apply firstn_le_length.
  - intros t Hs Ho. eapply NoDup_app_disj; eauto.
  - intros t. rewrite <- touched_iff. split.
    + intros Ht. destruct (sr_open _ _ _ _ _ S t Ht) as (its & ws & _ & Hl & _).
      apply lookup_some_in in Hl. unfold comb in Hl. rewrite names_app in Hl. now apply in_app_or.
    + intros Hin. destruct (touched t ops) eqn:Ht; [reflexivity|].
      destruct (sr_rest _ _ _ _ _ S t Ht) as [_ Hl]. apply lookup_none in Hl. exfalso. apply Hl.
      unfold comb. rewrite names_app. now apply in_or_app.
Qed.

(* what a document contains: exactly the records and the strings of its events, in order *)
Lemma wrun_contents F evs : forall w its w',
  wrun F w evs = Some (its, w') -> recs_of its = recs_of_events evs /\ raws_of its = strs_of_events evs.
Proof.
  induction evs as [|[r|s] evs IH]; intros w its w' H; cbn in H.
  - inversion H; subst. auto.
  - destruct (w_rec F w r) as [[i1 w1]|] eqn:E1; [|discriminate].
    destruct (wrun F w1 evs) as [[i2 w2]|] eqn:E2; [|discriminate]. inversion H; subst.
    destruct (w_rec_recs _ _ _ _ _ E1) as [Hr Hs]. destruct (IH _ _ _ E2) as [Hr2 Hs2].
    rewrite recs_of_app, raws_of_app, Hr, Hs, Hr2, Hs2. auto.
  - destruct (wrun F w evs) as [[i2 w2]|] eqn:E2; [|discriminate]. inversion H; subst.
    destruct (IH _ _ _ E2) as [Hr2 Hs2]. cbn. rewrite Hr2, Hs2. auto.
Qed.

Lemma single_doc_contents F evs d :
  single_doc F evs = Some d -> recs_of d = recs_of_events evs /\ raws_of d = strs_of_events evs.
Proof.
  unfold single_doc. destruct (wrun F WFresh evs) as [[its ws]|] eqn:E; [|discriminate]. intros H. inversion H; subst.
  destruct (wrun_contents _ _ _ _ _ E) as [Hr Hs]. destruct (w_end_recs F ws) as [Hr2 Hs2].
  now rewrite recs_of_app, raws_of_app, Hr, Hs, Hr2, Hs2, !app_nil_r.
Qed.

Lemma startR_eq md fs0 ops t : start md fs0 ops t = if touched t ops then base md fs0 t else fs0 t.
Proof. unfold start, base. destruct (touched t ops); cbn; [|reflexivity]. destruct (is_append md); reflexivity. Qed.

Theorem routing_records_R md c F ops fs0 :
  r_err (runR md c F ops fs0) = false ->
  forall t, recs_of (finalR md c F ops fs0 t) = recs_of (start md fs0 ops t) ++ recs_of_events (events_of t ops).
Proof.
  intros He t. destruct (one_document_repaired md c F ops fs0 He t) as [H1 H0]. rewrite startR_eq.
  destruct (touched t ops) eqn:Ht.
  - destruct (H1 eq_refl) as (d & Hd & Hf). rewrite Hf, recs_of_app. f_equal. now apply single_doc_contents in Hd.
  - rewrite (H0 eq_refl), (events_untouched _ _ Ht). cbn. now rewrite app_nil_r.
Qed.

Theorem routing_strings_R md c F ops fs0 :
  r_err (runR md c F ops fs0) = false ->
  forall t, raws_of (finalR md c F ops fs0 t) = raws_of (start md fs0 ops t) ++ strs_of_events (events_of t ops).
Proof.
  intros He t. destruct (one_document_repaired md c F ops fs0 He t) as [H1 H0]. rewrite startR_eq.
  destruct (touched t ops) eqn:Ht.
  - destruct (H1 eq_refl) as (d & Hd & Hf). rewrite Hf, raws_of_app. f_equal. now apply single_doc_contents in Hd.
  - rewrite (H0 eq_refl), (events_untouched _ _ Ht). cbn. now rewrite app_nil_r.
Qed.

(* append mode extends what is there; write mode replaces it *)
Theorem append_mode_extends md c F ops fs0 :
  r_err (runR md c F ops fs0) = false ->
  forall t, touched t ops = true ->
  exists d, single_doc F (events_of t ops) = Some d /\
            finalR md c F ops fs0 t = (match md with MAppend => fs0 t | _ => [] end) ++ d.
Proof.
  intros He t Ht. destruct (one_document_repaired md c F ops fs0 He t) as [H1 _].
  destruct (H1 Ht) as (d & Hd & Hf). exists d. split; [exact Hd|]. rewrite Hf. unfold base. destruct md; reflexivity.
Qed.
