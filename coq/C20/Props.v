(* C20 property theorems.  Only statements closed by [exact]; each followed by Print Assumptions.
   All are about Model.run / Model.final -- the definitions Harness.chk evaluates against the real
   MultiOutputHandlerManager.  [m_err = false] excludes histories on which a record writer reports an error
   (CSV schema change); Example C20_nonvacuous shows the hypotheses are met by a real eviction history. *)
From Miller Require Import Base.Record C20.Model C20.Proofs.
Open Scope list_scope.

(* LRU invariant, every history, every capacity: no target open twice, never more than max(c,1) handlers open
   (pipes excepted: they are never evicted), evicted names are exactly the touched names that are not open. *)
Theorem C20_lru_invariant :
  forall md c F ops fs0, let m := run md c F ops fs0 in
  m_err m = false ->
  NoDup (map fst (m_open m)) /\
  (is_pipe md = false -> List.length (m_open m) <= Nat.max c 1) /\
  (forall t, In t (m_evicted m) -> ~ In t (map fst (m_open m))) /\
  (forall t, In t (targets_of ops) <-> In t (map fst (m_open m)) \/ In t (m_evicted m)).
Proof.
  exact (fun md c F ops fs0 He =>
    let B := run_book md c F ops fs0 He in
    conj (b_nodup _ _ _ _ B) (conj (b_cap _ _ _ _ B) (conj (b_disj _ _ _ _ B) (b_cov _ _ _ _ B)))).
Qed.
Print Assumptions C20_lru_invariant.

(* routing is complete and ordered: after Close, the records in target t are what was there to begin with
   (kept in append mode, truncated otherwise, untouched if t was never written) followed by exactly the records
   routed to t, in stream order -- every format, every mode, ANY number of targets and revisit pattern. *)
Theorem C20_routing_complete_ordered_records :
  forall md c F ops fs0, m_err (run md c F ops fs0) = false ->
  forall t, recs_of (final md c F ops fs0 t) = recs_of (start md fs0 ops t) ++ recs_of_events (events_of t ops).
Proof. exact routing_records. Qed.
Print Assumptions C20_routing_complete_ordered_records.

(* the same for text written by redirected print / printn / dump *)
Theorem C20_routing_complete_ordered_strings :
  forall md c F ops fs0, m_err (run md c F ops fs0) = false ->
  forall t, raws_of (final md c F ops fs0 t) = raws_of (start md fs0 ops t) ++ strs_of_events (events_of t ops).
Proof. exact routing_strings. Qed.
Print Assumptions C20_routing_complete_ordered_strings.

(* DKVP, NIDX, JSON Lines: each target is exactly the one document a single writer produces for its
   sub-sequence, for ANY number of targets (eviction and re-open are invisible) *)
Theorem C20_one_document_stateless_formats :
  forall md c F ops fs0, stateless F = true -> m_err (run md c F ops fs0) = false ->
  forall t, exists d, single_doc F (events_of t ops) = Some d /\ final md c F ops fs0 t = start md fs0 ops t ++ d.
Proof. exact one_document_stateless. Qed.
Print Assumptions C20_one_document_stateless_formats.
