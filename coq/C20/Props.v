(* C20 property theorems.  Only statements closed by [exact]; each followed by Print Assumptions.
   All are about Model.run / Model.final -- the definitions Harness.chk evaluates against the real
   MultiOutputHandlerManager.  [m_err = false] excludes histories on which a record writer reports an error
   (CSV schema change); Example C20_nonvacuous shows the hypotheses are met by a real eviction history. *)
From Miller Require Import Base.Record C20.Model C20.Proofs.
Open Scope list_scope.

(* LRU invariant, every history, every capacity: no target open twice, never more than max(c,1) handlers open
   (pipes excepted: they are never evicted), evicted names are exactly the touched names that are not open. *)
Theorem C20_lru_invariant :
  forall md c F ops fs0, let m := run md c F ops fs0 in
  m_err m = false ->
  NoDup (map fst (m_open m)) /\
  (is_pipe md = false -> List.length (m_open m) <= Nat.max c 1) /\
  (forall t, In t (m_evicted m) -> ~ In t (map fst (m_open m))) /\
  (forall t, In t (targets_of ops) <-> In t (map fst (m_open m)) \/ In t (m_evicted m)).
Proof.
  exact (fun md c F ops fs0 He =>
    let B := run_book md c F ops fs0 He in
    conj (b_nodup _ _ _ _ B) (conj (b_cap _ _ _ _ B) (conj (b_disj _ _ _ _ B) (b_cov _ _ _ _ B)))).
Qed.
Print Assumptions C20_lru_invariant.

(* routing is complete and ordered: after Close, the records in target t are what was there to begin with
   (kept in append mode, truncated otherwise, untouched if t was never written) followed by exactly the records
   routed to t, in stream order -- every format, every mode, ANY number of targets and revisit pattern. *)
Theorem C20_routing_complete_ordered_records :
  forall md c F ops fs0, m_err (run md c F ops fs0) = false ->
  forall t, recs_of (final md c F ops fs0 t) = recs_of (start md fs0 ops t) ++ recs_of_events (events_of t ops).
Proof. exact routing_records. Qed.
Print Assumptions C20_routing_complete_ordered_records.

(* the same for text written by redirected print / printn / dump *)
Theorem C20_routing_complete_ordered_strings :
  forall md c F ops fs0, m_err (run md c F ops fs0) = false ->
  forall t, raws_of (final md c F ops fs0 t) = raws_of (start md fs0 ops t) ++ strs_of_events (events_of t ops).
Proof. exact routing_strings. Qed.
Print Assumptions C20_routing_complete_ordered_strings.

(* DKVP, NIDX, JSON Lines: each target is exactly the one document a single writer produces for its
   sub-sequence, for ANY number of targets (eviction and re-open are invisible) *)
Theorem C20_one_document_stateless_formats :
  forall md c F ops fs0, stateless F = true -> m_err (run md c F ops fs0) = false ->
  forall t, exists d, single_doc F (events_of t ops) = Some d /\ final md c F ops fs0 t = start md fs0 ops t ++ d.
Proof. exact one_document_stateless. Qed.
Print Assumptions C20_one_document_stateless_formats.

(* CSV, JSON (any format): when nothing is evicted -- pipes, or no more distinct targets than the capacity --
   each touched target holds base ++ ONE document of its sub-sequence.
   base = previous content in append mode (append_mode_extends_existing), empty otherwise. *)
Theorem C20_one_document_within_capacity :
  forall md c F ops fs0,
  (is_pipe md = true \/ List.length (distinct (targets_of ops)) <= c) ->
  m_err (run md c F ops fs0) = false ->
  forall t, touched t ops = true ->
  exists d, single_doc F (events_of t ops) = Some d /\ final md c F ops fs0 t = base md fs0 t ++ d.
Proof. exact one_document_no_eviction. Qed.
Print Assumptions C20_one_document_within_capacity.

(* what "one document" means: one header line (CSV, TSV) / one bracket pair (JSON) exactly when there is a record;
   XTAB: exactly one empty line between consecutive records *)
Theorem C20_document_has_one_header_one_bracket_pair :
  forall F evs d, single_doc F evs = Some d ->
  let one := if has_rec evs then 1 else 0 in
  count is_header d = (match F with FCsv | FTsv => one | _ => 0 end) /\
  count is_open d = (match F with FJson => one | _ => 0 end) /\
  count is_close d = (match F with FJson => one | _ => 0 end) /\
  count is_blank d = nblank F (pred (List.length (recs_of_events evs))).
Proof. exact single_doc_shape. Qed.
Print Assumptions C20_document_has_one_header_one_bracket_pair.

(* targets never written keep their content, whatever else happens *)
Theorem C20_untouched_targets_unchanged :
  forall md c F ops fs0, m_err (run md c F ops fs0) = false ->
  forall t, touched t ops = false -> final md c F ops fs0 t = fs0 t.
Proof. exact untouched_unchanged. Qed.
Print Assumptions C20_untouched_targets_unchanged.

(* REFUTED for header / bracket formats beyond the capacity: at the real capacity 256, 257 targets written once
   and the first one written again gives a CSV file with two header lines / a JSON file with two bracket pairs
   (the handler was evicted, closed, and re-opened in append mode with a fresh record writer).
   Finding class lru-evict-reopen-repeats-header. *)
Theorem C20_one_document_beyond_capacity_csv_refuted :
  exists c ops t,
    c = 256 /\ List.length (distinct (targets_of ops)) = 257 /\
    m_err (run MWrite c FCsv ops empty_store) = false /\
    exists d, single_doc FCsv (events_of t ops) = Some d /\
              final MWrite c FCsv ops empty_store t <> d /\
              count is_header d = 1 /\ count is_header (final MWrite c FCsv ops empty_store t) = 2.
Proof.
  exact (ex_intro _ 256 (ex_intro _ (witness_ops 256) (ex_intro _ (wname 0)
          (conj eq_refl (conj (proj1 witness_csv_256) (proj2 witness_csv_256)))))).
Qed.
Print Assumptions C20_one_document_beyond_capacity_csv_refuted.

Theorem C20_one_document_beyond_capacity_json_refuted :
  exists c ops t,
    c = 256 /\
    m_err (run MWrite c FJson ops empty_store) = false /\
    exists d, single_doc FJson (events_of t ops) = Some d /\
              final MWrite c FJson ops empty_store t <> d /\
              count is_open d = 1 /\ count is_close d = 1 /\
              count is_open (final MWrite c FJson ops empty_store t) = 2 /\
              count is_close (final MWrite c FJson ops empty_store t) = 2.
Proof.
  exact (ex_intro _ 256 (ex_intro _ (witness_ops 256) (ex_intro _ (wname 0) (conj eq_refl witness_json_256)))).
Qed.
Print Assumptions C20_one_document_beyond_capacity_json_refuted.

(* the same defect under XTAB loses a record BOUNDARY: the separating empty line is not written after a re-open,
   so two records read back as one (smallest instance: capacity 1, targets Aa Ab Aa) *)
Theorem C20_one_document_beyond_capacity_xtab_refuted :
  render FXtab (final MWrite 1 FXtab (witness_ops 1) empty_store (wname 0)) = B "a 0
b x
a 1
b x
" /\ (forall d, single_doc FXtab (events_of (wname 0) (witness_ops 1)) = Some d -> render FXtab d = B "a 0
b x

a 1
b x
").
Proof. exact witness_xtab_small. Qed.
Print Assumptions C20_one_document_beyond_capacity_xtab_refuted.

(* true LRU: at every moment the open handlers are exactly the max(c,1) most recently used distinct targets, most
   recent first -- so the handler that gets closed on a miss at capacity is the least recently used one *)
Theorem C20_open_set_is_most_recently_used :
  forall md c F ops fs0, is_pipe md = false -> m_err (run md c F ops fs0) = false ->
  map fst (m_open (run md c F ops fs0)) = firstn (Nat.max c 1) (recency (targets_of ops)).
Proof. exact open_is_most_recent. Qed.
Print Assumptions C20_open_set_is_most_recently_used.

(* what a repair of lru-evict-reopen-repeats-header must achieve, shown for the keep_writer_on_evict variant of the
   manager (Model.runR: eviction keeps the record writer, re-open resumes it, Close finishes evicted targets too):
   ONE document per target for EVERY format, ANY number of targets, any capacity; untouched targets unchanged *)
Theorem C20_one_document_repaired_manager :
  forall md c F ops fs0, r_err (runR md c F ops fs0) = false ->
  forall t,
  (touched t ops = true ->
   exists d, single_doc F (events_of t ops) = Some d /\ finalR md c F ops fs0 t = base md fs0 t ++ d) /\
  (touched t ops = false -> finalR md c F ops fs0 t = fs0 t).
Proof. exact one_document_repaired. Qed.
Print Assumptions C20_one_document_repaired_manager.

(* ... and on the 257-target witness the repaired variant writes one header / one bracket pair *)
Theorem C20_repaired_manager_on_witness :
  let ops := witness_ops 256 in
  r_err (runR MWrite 256 FCsv ops empty_store) = false /\
  count is_header (finalR MWrite 256 FCsv ops empty_store (wname 0)) = 1 /\
  count is_open (finalR MWrite 256 FJson ops empty_store (wname 0)) = 1 /\
  count is_close (finalR MWrite 256 FJson ops empty_store (wname 0)) = 1.
Proof. exact repaired_on_witness. Qed.
Print Assumptions C20_repaired_manager_on_witness.

(* tee passes every record on and sees every record even when a later head stops early: the tee stage does not
   forward the downstream-done flag, so the reader is never told to stop.  _partial: this is the flag-propagation
   abstraction only (Model.delivered); the goroutine/channel mechanics are C04's subject. *)
Theorem C20_main_stream_continues_partial :
  forall n rest cut recs,
  run_chain (VTee :: VHead n :: rest) cut recs =
  (recs :: fst (chain rest (firstn n recs)), snd (chain rest (firstn n recs))).
Proof. exact tee_then_head. Qed.
Print Assumptions C20_main_stream_continues_partial.

(* hypotheses are satisfiable on a real eviction history: capacity 2, three targets, DKVP, the first target revisited
   after its eviction; and on a CSV history within capacity *)
Example C20_nonvacuous :
  let ops := [(B "x", ERec [(B "a", B "1")]); (B "y", ERec [(B "a", B "2")]); (B "z", EStr (B "hello"));
              (B "x", ERec [(B "a", B "3")])] in
  m_err (run MWrite 2 FDkvp ops empty_store) = false /\
  m_evicted (run MWrite 2 FDkvp ops empty_store) = [B "y"] /\
  stateless FDkvp = true /\ touched (B "x") ops = true /\ touched (B "q") ops = false /\
  render FDkvp (final MWrite 2 FDkvp ops empty_store (B "x")) = B "a=1
a=3
" /\
  m_err (run MAppend 3 FCsv ops empty_store) = false /\
  List.length (distinct (targets_of ops)) <= 3.
Proof. vm_compute. repeat split; reflexivity || lia. Qed.
