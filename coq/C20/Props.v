(* C20 property theorems.  Only statements closed by [exact]; each followed by Print Assumptions.
   All are about Model.runR / Model.finalR -- the manager as repaired (suspend / resume of evicted handlers), the
   definitions Harness.chk evaluates against the real MultiOutputHandlerManager.  [r_err = false] excludes histories on
   which a record writer reports an error (CSV schema change); Example C20_nonvacuous shows the hypotheses are met by
   a real eviction history.  The theorems C20_unrepaired_manager_* are about the manager as it was before the repair
   (Model.run / Model.final): they state what the repair removed and are not tied to the implementation any more. *)
From Miller Require Import Base.Bytes Base.Record.
From Miller Require Import C01.Model C01.ModelJson C01.ModelXtab C01.ModelLite C01.ModelPprint C01.ModelMd C01.ProofsTsv C01.ProofsCsv C01.ProofsDkvp C01.ProofsJson C01.ProofsXtab C01.ProofsLite C01.ProofsPprint.
From Miller Require Import Base.Bytes Base.Record C20.Model C20.Proofs C20.ProofsR C20.Generic C20.Writers C20.ProofsW C20.WritersYaml C20.ProofsChain.
Open Scope list_scope.

(* LRU invariant, every history, every capacity: no target open twice or suspended twice, never more than max(c,1)
   handlers open (pipes excepted: they are never evicted), suspended names are not open, and the touched names are
   exactly the open and the suspended ones. *)
Theorem C20_lru_invariant :
  forall md c F ops fs0, let m := runR md c F ops fs0 in
  r_err m = false ->
  NoDup (map fst (r_open m)) /\ NoDup (map fst (r_susp m)) /\
  (is_pipe md = false -> List.length (r_open m) <= Nat.max c 1) /\
  (forall t, In t (map fst (r_susp m)) -> ~ In t (map fst (r_open m))) /\
  (forall t, In t (targets_of ops) <-> In t (map fst (r_open m)) \/ In t (map fst (r_susp m))).
Proof. exact lru_invariant_R. Qed.
Print Assumptions C20_lru_invariant.

(* routing is complete and ordered: after Close, the records in target t are what was there to begin with
   (kept in append mode, truncated otherwise, untouched if t was never written) followed by exactly the records
   routed to t, in stream order -- every format, every mode, ANY number of targets and revisit pattern. *)
Theorem C20_routing_complete_ordered_records :
  forall md c F ops fs0, r_err (runR md c F ops fs0) = false ->
  forall t, recs_of (finalR md c F ops fs0 t) = recs_of (start md fs0 ops t) ++ recs_of_events (events_of t ops).
Proof. exact routing_records_R. Qed.
Print Assumptions C20_routing_complete_ordered_records.

(* the same for text written by redirected print / printn / dump *)
Theorem C20_routing_complete_ordered_strings :
  forall md c F ops fs0, r_err (runR md c F ops fs0) = false ->
  forall t, raws_of (finalR md c F ops fs0 t) = raws_of (start md fs0 ops t) ++ strs_of_events (events_of t ops).
Proof. exact routing_strings_R. Qed.
Print Assumptions C20_routing_complete_ordered_strings.

(* ONE document per target: EVERY format, EVERY mode, ANY number of targets, any capacity, any revisit pattern --
   each touched target holds base ++ exactly the document a single writer produces for its sub-sequence
   (base = previous content in append mode, empty otherwise); untouched targets are unchanged.
   (Before the repair this held only for stateless formats or within the capacity; see C20_unrepaired_manager_*.) *)
Theorem C20_one_document :
  forall md c F ops fs0, r_err (runR md c F ops fs0) = false ->
  forall t,
  (touched t ops = true ->
   exists d, single_doc F (events_of t ops) = Some d /\ finalR md c F ops fs0 t = base md fs0 t ++ d) /\
  (touched t ops = false -> finalR md c F ops fs0 t = fs0 t).
Proof. exact one_document_repaired. Qed.
Print Assumptions C20_one_document.

(* append mode (">>", tee -a, split -a) extends what the file held; write mode and pipes start from nothing *)
Theorem C20_append_mode_extends_existing :
  forall md c F ops fs0, r_err (runR md c F ops fs0) = false ->
  forall t, touched t ops = true ->
  exists d, single_doc F (events_of t ops) = Some d /\
            finalR md c F ops fs0 t = (match md with MAppend => fs0 t | _ => [] end) ++ d.
Proof. exact append_mode_extends. Qed.
Print Assumptions C20_append_mode_extends_existing.

(* what "one document" means: one header line (CSV, TSV) / one bracket pair (JSON) exactly when there is a record;
   XTAB: exactly one empty line between consecutive records *)
Theorem C20_document_has_one_header_one_bracket_pair :
  forall F evs d, single_doc F evs = Some d ->
  let one := if has_rec evs then 1 else 0 in
  count is_header d = (match F with FCsv | FTsv => one | _ => 0 end) /\
  count is_open d = (match F with FJson => one | _ => 0 end) /\
  count is_close d = (match F with FJson => one | _ => 0 end) /\
  count is_blank d = nblank F (pred (List.length (recs_of_events evs))).
Proof. exact single_doc_shape. Qed.
Print Assumptions C20_document_has_one_header_one_bracket_pair.

(* targets never written keep their content, whatever else happens *)
Theorem C20_untouched_targets_unchanged :
  forall md c F ops fs0, r_err (runR md c F ops fs0) = false ->
  forall t, touched t ops = false -> finalR md c F ops fs0 t = fs0 t.
Proof. exact (fun md c F ops fs0 He t => proj2 (one_document_repaired md c F ops fs0 He t)). Qed.
Print Assumptions C20_untouched_targets_unchanged.

(* The manager BEFORE the repair (Model.run: eviction closes, re-open starts a fresh writer), header / bracket formats beyond
   the capacity: at the real capacity 256, 257 targets written once
   and the first one written again gives a CSV file with two header lines / a JSON file with two bracket pairs
   (the handler was evicted, closed, and re-opened in append mode with a fresh record writer).
   This was finding lru-evict-reopen-repeats-header; repaired in /repo (C20_one_document is the theorem about the code now). *)
Theorem C20_unrepaired_manager_repeats_csv_header :
  exists c ops t,
    c = 256 /\ List.length (distinct (targets_of ops)) = 257 /\
    m_err (run MWrite c FCsv ops empty_store) = false /\
    exists d, single_doc FCsv (events_of t ops) = Some d /\
              final MWrite c FCsv ops empty_store t <> d /\
              count is_header d = 1 /\ count is_header (final MWrite c FCsv ops empty_store t) = 2.
Proof.
  exact (ex_intro _ 256 (ex_intro _ (witness_ops 256) (ex_intro _ (wname 0)
          (conj eq_refl (conj (proj1 witness_csv_256) (proj2 witness_csv_256)))))).
Qed.
Print Assumptions C20_unrepaired_manager_repeats_csv_header.

Theorem C20_unrepaired_manager_repeats_json_brackets :
  exists c ops t,
    c = 256 /\
    m_err (run MWrite c FJson ops empty_store) = false /\
    exists d, single_doc FJson (events_of t ops) = Some d /\
              final MWrite c FJson ops empty_store t <> d /\
              count is_open d = 1 /\ count is_close d = 1 /\
              count is_open (final MWrite c FJson ops empty_store t) = 2 /\
              count is_close (final MWrite c FJson ops empty_store t) = 2.
Proof.
  exact (ex_intro _ 256 (ex_intro _ (witness_ops 256) (ex_intro _ (wname 0) (conj eq_refl witness_json_256)))).
Qed.
Print Assumptions C20_unrepaired_manager_repeats_json_brackets.

(* the same defect under XTAB loses a record BOUNDARY: the separating empty line is not written after a re-open,
   so two records read back as one (smallest instance: capacity 1, targets Aa Ab Aa) *)
Theorem C20_unrepaired_manager_loses_xtab_separator :
  render FXtab (final MWrite 1 FXtab (witness_ops 1) empty_store (wname 0)) = B "a 0
b x
a 1
b x
" /\ (forall d, single_doc FXtab (events_of (wname 0) (witness_ops 1)) = Some d -> render FXtab d = B "a 0
b x

a 1
b x
").
Proof. exact witness_xtab_small. Qed.
Print Assumptions C20_unrepaired_manager_loses_xtab_separator.

(* true LRU: at every moment the open handlers are exactly the max(c,1) most recently used distinct targets, most
   recent first -- so the handler that gets suspended on a miss at capacity is the least recently used one *)
Theorem C20_open_set_is_most_recently_used :
  forall md c F ops fs0, is_pipe md = false -> r_err (runR md c F ops fs0) = false ->
  map fst (r_open (runR md c F ops fs0)) = firstn (Nat.max c 1) (recency (targets_of ops)).
Proof. exact open_is_most_recent_R. Qed.
Print Assumptions C20_open_set_is_most_recently_used.

(* ... and on the 257-target history on which the unrepaired manager repeated the header, one header / one bracket pair *)
Theorem C20_one_document_on_old_witness :
  let ops := witness_ops 256 in
  r_err (runR MWrite 256 FCsv ops empty_store) = false /\
  count is_header (finalR MWrite 256 FCsv ops empty_store (wname 0)) = 1 /\
  count is_open (finalR MWrite 256 FJson ops empty_store (wname 0)) = 1 /\
  count is_close (finalR MWrite 256 FJson ops empty_store (wname 0)) = 1.
Proof. exact repaired_on_witness. Qed.
Print Assumptions C20_one_document_on_old_witness.

(* tee passes every record on and sees every record even when a later head stops early: the tee stage does not
   forward the downstream-done flag, so the reader is never told to stop.  _partial: this is the flag-propagation
   abstraction only (Model.delivered); the goroutine/channel mechanics are C04's subject. *)
Theorem C20_main_stream_continues_partial :
  forall n rest cut recs,
  run_chain (VTee :: VHead n :: rest) cut recs =
  (recs :: fst (chain rest (firstn n recs)), snd (chain rest (firstn n recs))).
Proof. exact tee_then_head. Qed.
Print Assumptions C20_main_stream_continues_partial.

(* hypotheses are satisfiable on a real eviction history: capacity 2, three targets, CSV, the first target revisited
   after its eviction (suspended, resumed: ONE header); append mode onto existing content *)
Example C20_nonvacuous :
  let ops := [(B "x", ERec [(B "a", B "1")]); (B "y", ERec [(B "a", B "2")]); (B "z", EStr (B "hello"));
              (B "x", ERec [(B "a", B "3")])] in
  r_err (runR MWrite 2 FCsv ops empty_store) = false /\
  map fst (r_susp (runR MWrite 2 FCsv ops empty_store)) = [B "y"] /\
  touched (B "x") ops = true /\ touched (B "q") ops = false /\
  render FCsv (finalR MWrite 2 FCsv ops empty_store (B "x")) = B "a
1
3
" /\
  render FCsv (finalR MAppend 2 FCsv ops (upd (B "x") [IRaw (B "old
")] empty_store) (B "x")) = B "old
a
1
3
" /\
  r_err (runR MAppend 3 FJson ops empty_store) = false.
Proof. vm_compute. repeat split; reflexivity. Qed.

(* ================================================================ the manager over ANY streaming record writer (Generic.v), and
   the writers of pkg/output as streaming machines (Writers.v: CSV, TSV, csvlite, JSON with / without the outer list and
   --jvstack, JSON Lines, DKVP, NIDX, XTAB, PPRINT incl. --barred-output --right --headerless-pprint-output, markdown streaming
   and --omd-aligned).  Tied to the real manager with the real writers and options by HarnessG.chkG (byte-for-byte, histories
   with heterogeneous records, also beyond the capacity). *)

(* ONE document per target for EVERY writer that is a state machine (state, step, end-of-stream text): any history of
   (target, record | text) writes, any number of targets, any capacity, modes > >> | *)
Theorem C20_one_document_any_writer :
  forall (W : swriter) md c ops fs0, g_err (runG W md c ops fs0) = false ->
  forall t,
  (touched t ops = true ->
   exists d, sdoc W (events_of t ops) = Some d /\ finalG W md c ops fs0 t = gbase md fs0 t ++ d) /\
  (touched t ops = false -> finalG W md c ops fs0 t = fs0 t).
Proof. exact one_document_generic. Qed.
Print Assumptions C20_one_document_any_writer.

(* the manager reports an error only if ONE writer over some target's own events does (CSV / TSV schema change): eviction
   never causes an error *)
Theorem C20_errors_are_the_writers :
  forall (W : swriter) md c ops fs0, (forall t, sdoc W (events_of t ops) <> None) -> g_err (runG W md c ops fs0) = false.
Proof. exact no_error_when_documents_exist. Qed.
Print Assumptions C20_errors_are_the_writers.

(* each streaming writer produces exactly C01's document for the records it is given *)
Theorem C20_streaming_writers_are_C01_documents :
  (forall hl qa crlf comma recs, sdoc (W_csv hl qa crlf comma) (map ERec recs) = write_csv hl qa crlf comma recs) /\
  (forall hl crlf recs, sdoc (W_tsv hl crlf) (map ERec recs) = write_tsv hl crlf recs) /\
  (forall ofs hl crlf recs, sdoc (W_csvlite ofs hl crlf) (map ERec recs) = Some (write_csvlite ofs hl crlf recs)) /\
  (forall ml recs, sdoc (W_json_wrap ml) (map ERec recs) = Some (write_json ml true recs)) /\
  (forall ml recs, sdoc (W_json_nowrap ml) (map ERec recs) = Some (write_json ml false recs)) /\
  (forall ofs ops crlf recs, sdoc (W_dkvp ofs ops crlf) (map ERec recs) = Some (write_dkvp ofs ops crlf recs)) /\
  (forall ofs crlf recs, sdoc (W_nidx ofs crlf) (map ERec recs) = Some (write_nidx ofs crlf recs)) /\
  (forall w ops right recs, sdoc (W_xtab w ops right) (map ERec recs) = Some (write_xtab w ops right recs)) /\
  (forall w right barred hl crlf recs, sdoc (W_pprint w right barred hl crlf) (map ERec recs) = Some (write_pprint_g w right barred hl crlf recs)) /\
  (forall w crlf recs, sdoc (W_md crlf) (map ERec recs) = Some (write_markdown w false crlf recs)) /\
  (forall w crlf recs, sdoc (W_mda w (ors_of crlf)) (map ERec recs) = Some (write_markdown w true crlf recs)).
Proof.
  exact (conj W_csv_doc (conj W_tsv_doc (conj W_csvlite_doc (conj W_json_wrap_doc (conj W_json_nowrap_doc (conj W_dkvp_doc
        (conj W_nidx_doc (conj W_xtab_doc (conj W_pprint_doc (conj W_md_doc W_mda_doc')))))))))).
Qed.
Print Assumptions C20_streaming_writers_are_C01_documents.

(* per writer: every touched target holds  base ++ <format document of exactly the records routed to it, in stream order> *)
Theorem C20_csv_target_is_one_document :
  forall hl qa crlf comma md c ops fs0,
  records_only ops = true -> g_err (runG (W_csv hl qa crlf comma) md c ops fs0) = false ->
  forall t,
  (touched t ops = true -> exists d, write_csv hl qa crlf comma (routed t ops) = Some d /\
                                     finalG (W_csv hl qa crlf comma) md c ops fs0 t = gbase md fs0 t ++ d) /\
  (touched t ops = false -> finalG (W_csv hl qa crlf comma) md c ops fs0 t = fs0 t).
Proof. exact T_csv. Qed.
Print Assumptions C20_csv_target_is_one_document.

Theorem C20_tsv_target_is_one_document :
  forall hl crlf md c ops fs0,
  records_only ops = true -> g_err (runG (W_tsv hl crlf) md c ops fs0) = false ->
  forall t,
  (touched t ops = true -> exists d, write_tsv hl crlf (routed t ops) = Some d /\ finalG (W_tsv hl crlf) md c ops fs0 t = gbase md fs0 t ++ d) /\
  (touched t ops = false -> finalG (W_tsv hl crlf) md c ops fs0 t = fs0 t).
Proof. exact T_tsv. Qed.
Print Assumptions C20_tsv_target_is_one_document.

(* JSON with the outer list: one bracket pair, commas between the records; the writer is total, so no error hypothesis *)
Theorem C20_json_target_is_one_document :
  forall ml md c ops fs0, records_only ops = true ->
  forall t, touched t ops = true ->
  finalG (W_json_wrap ml) md c ops fs0 t = gbase md fs0 t ++ write_json ml true (routed t ops).
Proof.
  exact (fun ml md c ops fs0 Hr t Ht =>
    match proj1 (T_json_wrap ml md c ops fs0 Hr (json_wrap_total ml md c ops fs0 Hr) t) Ht with
    | ex_intro _ d (conj Hd Hf) => eq_trans Hf (f_equal (fun x => gbase md fs0 t ++ x) (eq_sym (f_equal (fun o => match o with Some y => y | None => d end) Hd)))
    end).
Qed.
Print Assumptions C20_json_target_is_one_document.

(* PPRINT: the batch retained by the writer survives suspension; blocks of equal keys, a blank line between blocks *)
Theorem C20_pprint_target_is_one_document :
  forall w right barred hl crlf md c ops fs0, records_only ops = true ->
  forall t, touched t ops = true ->
  finalG (W_pprint w right barred hl crlf) md c ops fs0 t = gbase md fs0 t ++ write_pprint_g w right barred hl crlf (routed t ops).
Proof.
  exact (fun w right barred hl crlf md c ops fs0 Hr t Ht =>
    match proj1 (T_pprint w right barred hl crlf md c ops fs0 Hr (pprint_total w right barred hl crlf md c ops fs0 Hr) t) Ht with
    | ex_intro _ d (conj Hd Hf) => eq_trans Hf (f_equal (fun x => gbase md fs0 t ++ x) (eq_sym (f_equal (fun o => match o with Some y => y | None => d end) Hd)))
    end).
Qed.
Print Assumptions C20_pprint_target_is_one_document.

Theorem C20_xtab_target_is_one_document :
  forall w o right md c ops fs0, records_only ops = true ->
  forall t, touched t ops = true ->
  finalG (W_xtab w o right) md c ops fs0 t = gbase md fs0 t ++ write_xtab w o right (routed t ops).
Proof.
  exact (fun w o right md c ops fs0 Hr t Ht =>
    match proj1 (T_xtab w o right md c ops fs0 Hr (xtab_total w o right md c ops fs0 Hr) t) Ht with
    | ex_intro _ d (conj Hd Hf) => eq_trans Hf (f_equal (fun x => gbase md fs0 t ++ x) (eq_sym (f_equal (fun o => match o with Some y => y | None => d end) Hd)))
    end).
Qed.
Print Assumptions C20_xtab_target_is_one_document.

(* csvlite: a schema change inside one target is a blank line and a new header (not an error), also across suspensions *)
Theorem C20_csvlite_target_is_one_document :
  forall ofs hl crlf md c ops fs0, records_only ops = true ->
  forall t, touched t ops = true ->
  finalG (W_csvlite ofs hl crlf) md c ops fs0 t = gbase md fs0 t ++ write_csvlite ofs hl crlf (routed t ops).
Proof.
  exact (fun ofs hl crlf md c ops fs0 Hr t Ht =>
    match proj1 (T_csvlite ofs hl crlf md c ops fs0 Hr (csvlite_total ofs hl crlf md c ops fs0 Hr) t) Ht with
    | ex_intro _ d (conj Hd Hf) => eq_trans Hf (f_equal (fun x => gbase md fs0 t ++ x) (eq_sym (f_equal (fun o => match o with Some y => y | None => d end) Hd)))
    end).
Qed.
Print Assumptions C20_csvlite_target_is_one_document.

Theorem C20_markdown_target_is_one_document :
  forall w crlf md c ops fs0, records_only ops = true ->
  forall t, touched t ops = true ->
  finalG (W_md crlf) md c ops fs0 t = gbase md fs0 t ++ write_markdown w false crlf (routed t ops).
Proof.
  exact (fun w crlf md c ops fs0 Hr t Ht =>
    match proj1 (T_md w crlf md c ops fs0 Hr (md_total crlf md c ops fs0 Hr) t) Ht with
    | ex_intro _ d (conj Hd Hf) => eq_trans Hf (f_equal (fun x => gbase md fs0 t ++ x) (eq_sym (f_equal (fun o => match o with Some y => y | None => d end) Hd)))
    end).
Qed.
Print Assumptions C20_markdown_target_is_one_document.

(* well-formed = reads back: composition with C01's round-trip theorems -- each target written with > or | reads back as
   exactly the records routed to it, in order (same hypotheses on the records as C01's theorem for the format) *)
Theorem C20_csv_target_reads_back :
  forall qa crlf comma lazy dedupe ragged md c ops fs0,
  is_append md = false -> records_only ops = true -> g_err (runG (W_csv false qa crlf comma) md c ops fs0) = false ->
  forall t, touched t ops = true -> wf_csv crlf comma (routed t ops) = true ->
  read_csv false lazy dedupe ragged comma (finalG (W_csv false qa crlf comma) md c ops fs0 t) = Some (routed t ops).
Proof. exact R_csv. Qed.
Print Assumptions C20_csv_target_reads_back.

Theorem C20_tsv_target_reads_back :
  forall crlf dedupe ragged md c ops fs0,
  is_append md = false -> records_only ops = true -> g_err (runG (W_tsv false crlf) md c ops fs0) = false ->
  forall t, touched t ops = true -> wf_tsv (routed t ops) = true ->
  read_tsv dedupe ragged (finalG (W_tsv false crlf) md c ops fs0 t) = Some (routed t ops).
Proof. exact R_tsv. Qed.
Print Assumptions C20_tsv_target_reads_back.

Theorem C20_json_target_reads_back :
  forall ml md c ops fs0,
  is_append md = false -> records_only ops = true ->
  forall t, touched t ops = true -> forallb (fun r => nodupb (keys r)) (routed t ops) = true ->
  read_json_ref (finalG (W_json_wrap ml) md c ops fs0 t) = Some (routed t ops).
Proof. exact (fun ml md c ops fs0 Hm Hr => R_json ml true md c ops fs0 Hm Hr (json_wrap_total ml md c ops fs0 Hr)). Qed.
Print Assumptions C20_json_target_reads_back.

Theorem C20_pprint_target_reads_back :
  forall w right crlf dedupe ragged md c ops fs0,
  is_append md = false -> records_only ops = true ->
  forall t, touched t ops = true -> wf_pprint crlf (routed t ops) = true ->
  read_pprint dedupe ragged (finalG (W_pprint w right false false crlf) md c ops fs0 t) = Some (routed t ops).
Proof. exact (fun w right crlf dedupe ragged md c ops fs0 Hm Hr => R_pprint w right crlf dedupe ragged md c ops fs0 Hm Hr (pprint_total w right false false crlf md c ops fs0 Hr)). Qed.
Print Assumptions C20_pprint_target_reads_back.

Theorem C20_csvlite_target_reads_back :
  forall ch crlf dedupe ragged md c ops fs0,
  is_append md = false -> records_only ops = true ->
  forall t, touched t ops = true -> wf_lite ch (routed t ops) = true ->
  read_csvlite [ch] dedupe ragged (finalG (W_csvlite [ch] false crlf) md c ops fs0 t) = Some (routed t ops).
Proof. exact (fun ch crlf dedupe ragged md c ops fs0 Hm Hr => R_csvlite ch crlf dedupe ragged md c ops fs0 Hm Hr (csvlite_total [ch] false crlf md c ops fs0 Hr)). Qed.
Print Assumptions C20_csvlite_target_reads_back.

Theorem C20_xtab_target_reads_back :
  forall w ch dedupe md c ops fs0,
  is_append md = false -> records_only ops = true ->
  forall t, touched t ops = true -> wf_xtab ch (routed t ops) = true ->
  read_xtab [ch] dedupe (finalG (W_xtab w [ch] false) md c ops fs0 t) = Some (routed t ops).
Proof. exact (fun w ch dedupe md c ops fs0 Hm Hr => R_xtab w ch dedupe md c ops fs0 Hm Hr (xtab_total w [ch] false md c ops fs0 Hr)). Qed.
Print Assumptions C20_xtab_target_reads_back.

(* non-vacuous: PPRINT at capacity 1, target x revisited after its eviction with a DIFFERENT schema -- two blocks, one blank line,
   the retained batch written at Close; csvlite likewise; JSON: one bracket pair *)
Example C20_writers_nonvacuous :
  let ops := [(B "x", ERec [(B "a", B "1")]); (B "y", ERec [(B "a", B "2")]); (B "x", ERec [(B "a", B "3")]);
              (B "y", ERec [(B "b", B "4")]); (B "x", ERec [(B "b", B "55")])] in
  let W := W_pprint (@List.length Ascii.ascii) false false false false in
  g_err (runG W MWrite 1 ops (fun _ => [])) = false /\
  finalG W MWrite 1 ops (fun _ => []) (B "x") = B "a
1
3

b
55
" /\
  finalG (W_csvlite (B ",") false false) MWrite 1 ops (fun _ => []) (B "y") = B "a
2

b
4
" /\
  finalG (W_json_wrap false) MAppend 1 ops (bupd (B "x") (B "old
") (fun _ => [])) (B "x") = B "old
[
{""a"": ""1""},
{""a"": ""3""},
{""b"": ""55""}
]
" /\
  g_err (runG (W_csv false false false ","%char) MWrite 1 ops (fun _ => [])) = true.
Proof. vm_compute. repeat split; reflexivity. Qed.

(* YAML list mode (the default --oyaml): the writer buffers every record and marshals the sequence at end of stream, so ALL of a
   target's bytes are owed at Close(), also by handlers that were suspended (evicted) and never used again: each target holds
   base ++ marshal(exactly the records routed to it, in order), for every marshalling function *)
Theorem C20_yaml_list_target_is_one_document :
  forall (marshal : list record -> bytes) md c ops fs0, records_only ops = true ->
  forall t, touched t ops = true ->
  finalG (W_yaml_list marshal) md c ops fs0 t = gbase md fs0 t ++ marshal (routed t ops).
Proof.
  exact (fun marshal md c ops fs0 Hr t Ht =>
    let Hd := W_yaml_list_doc marshal in
    let He := total_writer_no_error (W_yaml_list marshal) (fun recs => Some (marshal recs)) Hd md c ops fs0 Hr (fun recs H => match H with eq_refl => I end) in
    match proj1 (target_is_one_document (W_yaml_list marshal) (fun recs => Some (marshal recs)) Hd md c ops fs0 Hr He t) Ht with
    | ex_intro _ d (conj Hdd Hf) => eq_trans Hf (f_equal (fun x => gbase md fs0 t ++ x) (eq_sym (f_equal (fun o => match o with Some y => y | None => d end) Hdd)))
    end).
Qed.
Print Assumptions C20_yaml_list_target_is_one_document.

(* several fan-out stages (tee verb first, then tee verbs / put 'tee > ...') upstream of head -n: every one of them receives
   EVERY record, the main output is the first n records.  (Flag-propagation abstraction, as C20_main_stream_continues_partial.) *)
Theorem C20_fanouts_before_early_exit_partial :
  forall k n cut recs, run_chain (repeat VTee (S k) ++ [VHead n]) cut recs = (repeat recs (S k), firstn n recs).
Proof. exact fanouts_before_head. Qed.
Print Assumptions C20_fanouts_before_early_exit_partial.
