(* C20 proofs, part 10: per writer -- every fan-out target is ONE document of the chosen format, namely C01's document function
   applied to exactly the records routed to the target, in stream order; and (composition with C01's round-trip theorems)
   reading the target back gives exactly those records.  For every routing (any op history), any number of targets, any
   capacity, any revisit / eviction pattern, modes > >> |. *)
From Miller Require Import Base.Bytes Base.Record C20.Model C20.Proofs C20.Generic C20.Writers.
From Miller Require Import C01.Model C01.ProofsUtil C01.ProofsTsv C01.ProofsDkvp C01.ProofsCsv C01.ModelJson C01.ProofsJson
     C01.ModelXtab C01.ProofsXtab C01.ModelLite C01.ProofsLite C01.ModelPprint C01.ProofsPprint C01.ProofsBarred C01.ModelMd.
Open Scope list_scope.

(* the records routed to t, in stream order *)
Definition routed (t : target) (ops : list op) : list record := recs_of_events (events_of t ops).

(* tee / emit / split managers carry records only (print / dump managers carry text only) *)
Definition records_only (ops : list op) : bool :=
  forallb (fun o => match snd o with ERec _ => true | EStr _ => false end) ops.

Lemma events_records_only t ops : records_only ops = true -> events_of t ops = map ERec (routed t ops).
Proof.
  unfold routed. induction ops as [|[t' e] ops IH]; cbn; [reflexivity|]. intros H. apply andb_true_iff in H as [He H].
  destruct e as [r|s]; [|discriminate]. destruct (beqb t t'); cbn; [f_equal|]; auto.
Qed.

Section PerWriter.
  Variable W : swriter.
  Variable doc : list record -> option bytes.
  Hypothesis W_doc : forall recs, sdoc W (map ERec recs) = doc recs.

  Theorem target_is_one_document md c ops fs0 :
    records_only ops = true -> g_err (runG W md c ops fs0) = false ->
    forall t,
    (touched t ops = true -> exists d, doc (routed t ops) = Some d /\ finalG W md c ops fs0 t = gbase md fs0 t ++ d) /\
    (touched t ops = false -> finalG W md c ops fs0 t = fs0 t).
  Proof.
    intros Hr He t. destruct (one_document_generic W md c ops fs0 He t) as [H1 H0]. split; [|exact H0].
    intros Ht. destruct (H1 Ht) as (d & Hd & Hf). exists d. split; [|exact Hf].
    rewrite <- W_doc, <- events_records_only; assumption.
  Qed.

  (* a writer that never fails never makes the manager fail *)
  Theorem total_writer_no_error md c ops fs0 :
    records_only ops = true -> (forall recs, doc recs <> None) -> g_err (runG W md c ops fs0) = false.
  Proof.
    intros Hr Ht. apply no_error_when_documents_exist. intros t. rewrite (events_records_only t ops Hr), W_doc. apply Ht.
  Qed.

  (* reading the target back (write mode: the file is the document alone) *)
  Variable A : Type.
  Variable read : bytes -> option A.
  Variable good : list record -> Prop.
  Variable want : list record -> A.
  Hypothesis roundtrip : forall recs, good recs -> match doc recs with Some d => read d | None => None end = Some (want recs).

  Theorem target_reads_back md c ops fs0 :
    is_append md = false -> records_only ops = true -> g_err (runG W md c ops fs0) = false ->
    forall t, touched t ops = true -> good (routed t ops) -> read (finalG W md c ops fs0 t) = Some (want (routed t ops)).
  Proof.
    intros Hm Hr He t Ht Hg. destruct (target_is_one_document md c ops fs0 Hr He t) as [H1 _].
    destruct (H1 Ht) as (d & Hd & Hf). rewrite Hf. unfold gbase. rewrite Hm. cbn [app].
    specialize (roundtrip _ Hg). now rewrite Hd in roundtrip.
  Qed.
End PerWriter.

(* ---------------------------------------------------------------- instances *)
Definition T_csv hl qa crlf comma := target_is_one_document (W_csv hl qa crlf comma) (write_csv hl qa crlf comma) (W_csv_doc hl qa crlf comma).
Definition T_tsv hl crlf := target_is_one_document (W_tsv hl crlf) (write_tsv hl crlf) (W_tsv_doc hl crlf).
Definition T_json_wrap ml := target_is_one_document (W_json_wrap ml) (fun recs => Some (write_json ml true recs)) (W_json_wrap_doc ml).
Definition T_json_nowrap ml := target_is_one_document (W_json_nowrap ml) (fun recs => Some (write_json ml false recs)) (W_json_nowrap_doc ml).
Definition T_dkvp ofs ops crlf := target_is_one_document (W_dkvp ofs ops crlf) (fun recs => Some (write_dkvp ofs ops crlf recs)) (W_dkvp_doc ofs ops crlf).
Definition T_nidx ofs crlf := target_is_one_document (W_nidx ofs crlf) (fun recs => Some (write_nidx ofs crlf recs)) (W_nidx_doc ofs crlf).
Definition T_xtab w ops right := target_is_one_document (W_xtab w ops right) (fun recs => Some (write_xtab w ops right recs)) (W_xtab_doc w ops right).
Definition T_csvlite ofs hl crlf := target_is_one_document (W_csvlite ofs hl crlf) (fun recs => Some (write_csvlite ofs hl crlf recs)) (W_csvlite_doc ofs hl crlf).
Definition T_pprint w right barred hl crlf :=
  target_is_one_document (W_pprint w right barred hl crlf) (fun recs => Some (write_pprint_g w right barred hl crlf recs)) (W_pprint_doc w right barred hl crlf).
Definition T_md w crlf := target_is_one_document (W_md crlf) (fun recs => Some (write_markdown w false crlf recs)) (W_md_doc w crlf).
Definition T_mda w crlf := target_is_one_document (W_mda w (ors_of crlf)) (fun recs => Some (write_markdown w true crlf recs)) (W_mda_doc' w crlf).

(* only CSV and TSV can report an error (schema change); every other writer is total, so its manager never errs *)
Lemma json_wrap_total ml md c ops fs0 : records_only ops = true -> g_err (runG (W_json_wrap ml) md c ops fs0) = false.
Proof. intros H. eapply total_writer_no_error; [apply W_json_wrap_doc|exact H|discriminate]. Qed.
Lemma pprint_total w right barred hl crlf md c ops fs0 : records_only ops = true -> g_err (runG (W_pprint w right barred hl crlf) md c ops fs0) = false.
Proof. intros H. eapply total_writer_no_error; [apply W_pprint_doc|exact H|discriminate]. Qed.
Lemma xtab_total w o right md c ops fs0 : records_only ops = true -> g_err (runG (W_xtab w o right) md c ops fs0) = false.
Proof. intros H. eapply total_writer_no_error; [apply W_xtab_doc|exact H|discriminate]. Qed.
Lemma csvlite_total ofs hl crlf md c ops fs0 : records_only ops = true -> g_err (runG (W_csvlite ofs hl crlf) md c ops fs0) = false.
Proof. intros H. eapply total_writer_no_error; [apply W_csvlite_doc|exact H|discriminate]. Qed.
Lemma md_total crlf md c ops fs0 : records_only ops = true -> g_err (runG (W_md crlf) md c ops fs0) = false.
Proof. intros H. eapply (total_writer_no_error _ _ (W_md_doc (@List.length Ascii.ascii) crlf)); [exact H|discriminate]. Qed.

(* read-back: composition with C01's round trips *)
Definition R_csv qa crlf comma lazy dedupe ragged :=
  target_reads_back (W_csv false qa crlf comma) (write_csv false qa crlf comma) (W_csv_doc false qa crlf comma)
    (list record) (read_csv false lazy dedupe ragged comma) (fun recs => wf_csv crlf comma recs = true) (fun recs => recs)
    (fun recs (H : wf_csv crlf comma recs = true) => csv_roundtrip qa crlf comma lazy dedupe ragged recs H).
Definition R_tsv crlf dedupe ragged :=
  target_reads_back (W_tsv false crlf) (write_tsv false crlf) (W_tsv_doc false crlf)
    (list record) (read_tsv dedupe ragged) (fun recs => wf_tsv recs = true) (fun recs => recs)
    (fun recs (H : wf_tsv recs = true) => tsv_roundtrip crlf dedupe ragged recs H).
Definition R_json (ml wrap : bool) :=
  target_reads_back (if wrap then W_json_wrap ml else W_json_nowrap ml) (fun recs => Some (write_json ml wrap recs))
    (if wrap as b return (forall recs, sdoc (if b then W_json_wrap ml else W_json_nowrap ml) (map ERec recs) = Some (write_json ml b recs))
     then W_json_wrap_doc ml else W_json_nowrap_doc ml)
    (list record) read_json_ref (fun recs => forallb (fun r => nodupb (keys r)) recs = true) (fun recs => recs)
    (fun recs (H : forallb (fun r => nodupb (keys r)) recs = true) => json_roundtrip ml wrap recs H).
Definition R_pprint w right crlf dedupe ragged :=
  target_reads_back (W_pprint w right false false crlf) (fun recs => Some (write_pprint_g w right false false crlf recs)) (W_pprint_doc w right false false crlf)
    (list record) (read_pprint dedupe ragged) (fun recs => wf_pprint crlf recs = true) (fun recs => recs)
    (fun recs (H : wf_pprint crlf recs = true) => pprint_roundtrip w right crlf dedupe ragged recs H).
Definition R_csvlite c crlf dedupe ragged :=
  target_reads_back (W_csvlite [c] false crlf) (fun recs => Some (write_csvlite [c] false crlf recs)) (W_csvlite_doc [c] false crlf)
    (list record) (read_csvlite [c] dedupe ragged) (fun recs => wf_lite c recs = true) (fun recs => recs)
    (fun recs (H : wf_lite c recs = true) => csvlite_roundtrip c crlf dedupe ragged recs H).
Definition R_xtab w c dedupe :=
  target_reads_back (W_xtab w [c] false) (fun recs => Some (write_xtab w [c] false recs)) (W_xtab_doc w [c] false)
    (list record) (read_xtab [c] dedupe) (fun recs => wf_xtab c recs = true) (fun recs => recs)
    (fun recs (H : wf_xtab c recs = true) => xtab_roundtrip w c dedupe recs H).
Definition R_dkvp ifs ips crlf dedupe :=
  target_reads_back (W_dkvp ifs ips crlf) (fun recs => Some (write_dkvp ifs ips crlf recs)) (W_dkvp_doc ifs ips crlf)
    (list record) (fun b => Some (read_dkvp ifs ips false dedupe b)) (fun recs => wf_dkvp ifs ips crlf recs = true) (fun recs => recs)
    (fun recs (H : wf_dkvp ifs ips crlf recs = true) => f_equal Some (dkvp_roundtrip ifs ips crlf dedupe recs H)).
