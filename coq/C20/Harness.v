(* C20 correspondence harness: evaluated by vm_compute on cases written by harness/py/checks/c20.py.
   The SAME definitions (Model.runR / Model.finalR -- the repaired manager --, Model.render, Model.run_chain) the
   theorems of Props.v are about. *)
From Miller Require Import Base.Record C20.Model.
Open Scope Z_scope.

Definition mode_of (n : Z) : mode := if n =? 1 then MAppend else if n =? 2 then MPipe else MWrite.
Definition fmt_of (n : Z) : fmt :=
  if n =? 1 then FNidx else if n =? 2 then FJsonl else if n =? 3 then FCsv else if n =? 4 then FJson
  else if n =? 5 then FTsv else if n =? 6 then FXtab else FDkvp.

(* op as written by the driver: (target, kind, record, text); kind 0 = record, 1 = string *)
Definition op_of (o : bytes * Z * record * bytes) : op :=
  let '(t, k, r, s) := o in if k =? 0 then (t, ERec r) else (t, EStr s).

Fixpoint store_of (l : list (bytes * bytes)) : fstore :=
  match l with
  | [] => fun _ => []
  | (t, content) :: r => upd t (match content with [] => [] | _ => [IRaw content] end) (store_of r)
  end.

Fixpoint all_match (F : fmt) (fs : fstore) (obs : list (bytes * bytes)) : bool :=
  match obs with
  | [] => true
  | (t, content) :: r => beqb (render F (fs t)) content && all_match F fs r
  end.

(* case = (mode, fmt, capacity, ops, files before the run, files observed after the run (every touched or
   pre-existing target; a missing file is observed as empty)) *)
Definition chk (c : Z * Z * Z * list (bytes * Z * record * bytes) * list (bytes * bytes) * list (bytes * bytes)) : bool :=
  let '(md, f, cap, ops, before, after) := c in
  let F := fmt_of f in
  let m := runR (mode_of md) (Z.to_nat cap) F (map op_of ops) (store_of before) in
  negb (r_err m) && all_match F (close_all F (Mgr (r_open m ++ r_susp m) [] (r_fs m) (r_err m))) after.

(* tee-in-a-chain cases: (head count, delivered-cut, number of input records, observed tee count, observed main count);
   chain = tee then head n *)
Definition chk_chain (c : Z * Z * Z * Z * Z) : bool :=
  let '(n, cut, total, tee_seen, main_seen) := c in
  let recs := repeat ([] : record) (Z.to_nat total) in
  match run_chain [VTee; VHead (Z.to_nat n)] (Z.to_nat cut) recs with
  | ([teed], out) => (Z.of_nat (List.length teed) =? tee_seen) && (Z.of_nat (List.length out) =? main_seen)
  | _ => false
  end.
