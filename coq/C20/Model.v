(* C20 -- executable model of the fan-out machinery.  Definitions only.

   Mirrors pkg/output/file_output_handlers.go AS REPAIRED by the fix for finding lru-evict-reopen-repeats-header
   (the model tied to the implementation is [mgrR] / [runR] / [finalR] near the end of this file):
     MultiOutputHandlerManager  = [mgrR]  (MRU-first list of open handlers, the suspendedHandlers map, a file store)
     getOutputHandlerFor        = [acquireR] (hit: lruTouch; miss: FileOutputHandler.suspend() on lruTail when len >= capacity
                                              -- flush, close the file, KEEP the record writer --, then resume() the handler
                                              of that name if it is suspended (O_APPEND, same writer), else a new handler
                                              (O_APPEND iff mgr.append, else O_TRUNC) with a fresh writer)
     FileOutputHandler.WriteRecordAndContext / WriteString / Close = [w_rec] / IRaw / [w_end]
     MultiOutputHandlerManager.Close = [finalR] (every handler, open or suspended, gets its writer's end-of-stream text)
   The manager as it was BEFORE the repair ([mgr] / [run] / [final]: eviction closes the handler, its writer emits the
   end-of-stream text, a later use re-opens in append mode with a FRESH writer) is kept: the theorems
   C20_unrepaired_manager_* show what it did wrong; it is no longer tied to the implementation.
   and the per-format record writers of pkg/output/record_writer_{dkvp,nidx,json_jsonl,csv}.go as far as their
   stream state goes (CSV: needToPrintHeader + firstRecordKeys; JSON: wroteAnyRecords).

   The file store holds what has been handed to each target's stream; because a handler is flushed and closed
   before its target is ever reopened (eviction closes first), this is what the file holds after Close.
   File content is kept as a list of [item]s; [render] turns items into bytes. *)
From Miller Require Export Base.Record.
Open Scope list_scope.

Definition target := bytes.

Inductive fmt := FDkvp | FNidx | FJsonl | FCsv | FJson | FTsv | FXtab.
Inductive mode := MWrite | MAppend | MPipe.      (* ">" , ">>" , "|" *)

Inductive item :=
| IRaw (s : bytes)              (* print/dump text, or content that was in the file before the run *)
| IHeader (ks : list bytes)     (* CSV header line *)
| IRec (r : record) (pad : nat) (* one record; pad = number of empty fields the CSV writer fills in *)
| IOpen | ISep | IClose         (* JSON "[\n"   ",\n"   "\n]\n" *)
| IBlank.                       (* XTAB: the empty line between two records *)

(* stream state of a record writer: nothing written yet / started, with the first record's keys *)
Inductive wstate := WFresh | WStarted (first_keys : list bytes).

Inductive event := ERec (r : record) | EStr (s : bytes).

(* record_writer_csv.go: every key at a position below firstRecordNF must equal the first record's key there *)
Fixpoint prefix_agree (fk ks : list bytes) : bool :=
  match fk, ks with
  | f :: fk', k :: ks' => beqb f k && prefix_agree fk' ks'
  | _, _ => true
  end.

(* one record through a writer: items written and new state; None = the writer returns an error *)
Definition w_rec (F : fmt) (ws : wstate) (r : record) : option (list item * wstate) :=
  match F with
  | FDkvp | FNidx | FJsonl =>
      Some ([IRec r 0], match ws with WFresh => WStarted (keys r) | _ => ws end)
  | FJson =>
      match ws with
      | WFresh => Some ([IOpen; IRec r 0], WStarted (keys r))
      | WStarted _ => Some ([ISep; IRec r 0], ws)
      end
  | FXtab =>                    (* record_writer_xtab.go: onFirst *)
      match ws with
      | WFresh => Some ([IRec r 0], WStarted (keys r))
      | WStarted _ => Some ([IBlank; IRec r 0], ws)
      end
  | FCsv | FTsv =>              (* record_writer_csv.go / record_writer_tsv.go: same stream state *)
      match ws with
      | WFresh => Some ([IHeader (keys r); IRec r 0], WStarted (keys r))
      | WStarted fk =>
          if prefix_agree fk (keys r) then Some ([IRec r (List.length fk - List.length r)], ws) else None
      end
  end.

(* end of stream (Write(nil)): only the JSON list writer emits something, and only when it wrote a record
   (the handler closes with an empty context, so JSONHadBrackets is false) *)
Definition w_end (F : fmt) (ws : wstate) : list item :=
  match F, ws with
  | FJson, WStarted _ => [IClose]
  | _, _ => []
  end.

(* a whole event list through ONE writer, started in state ws *)
Fixpoint wrun (F : fmt) (ws : wstate) (evs : list event) : option (list item * wstate) :=
  match evs with
  | [] => Some ([], ws)
  | ERec r :: t =>
      match w_rec F ws r with
      | Some (its, ws') =>
          match wrun F ws' t with Some (its', ws'') => Some (its ++ its', ws'') | None => None end
      | None => None
      end
  | EStr s :: t =>
      match wrun F ws t with Some (its', ws'') => Some (IRaw s :: its', ws'') | None => None end
  end.

(* THE reference document: what a single writer produces for these events, start to end-of-stream *)
Definition single_doc (F : fmt) (evs : list event) : option (list item) :=
  match wrun F WFresh evs with
  | Some (its, ws) => Some (its ++ w_end F ws)
  | None => None
  end.

(* ---------------------------------------------------------------- the manager *)
Definition fstore := target -> list item.
Definition upd (t : target) (v : list item) (f : fstore) : fstore := fun t' => if beqb t' t then v else f t'.

Record mgr := Mgr {
  m_open : list (target * wstate);   (* lruHead first *)
  m_evicted : list target;           (* evictedFilenames *)
  m_fs : fstore;
  m_err : bool                       (* a writer reported an error; the model stops there *)
}.

Definition init (fs : fstore) : mgr := Mgr [] [] fs false.

Fixpoint lookup (t : target) (l : list (target * wstate)) : option wstate :=
  match l with
  | [] => None
  | (t', ws) :: r => if beqb t t' then Some ws else lookup t r
  end.

Fixpoint drop (t : target) (l : list (target * wstate)) : list (target * wstate) :=
  match l with
  | [] => []
  | (t', ws) :: r => if beqb t t' then r else (t', ws) :: drop t r
  end.

Definition rm (t : target) (l : list target) : list target := filter (fun x => negb (beqb t x)) l.

(* the list without its last element, and the last element *)
Fixpoint split_last {A} (l : list A) : option (list A * A) :=
  match l with
  | [] => None
  | x :: r => match split_last r with Some (i, z) => Some (x :: i, z) | None => Some ([], x) end
  end.

Definition is_append (md : mode) : bool := match md with MAppend => true | _ => false end.
Definition is_pipe (md : mode) : bool := match md with MPipe => true | _ => false end.

(* close lruTail: its writer emits the end-of-stream text, the name is remembered in evictedFilenames *)
Definition evict_last (F : fmt) (m : mgr) : mgr :=
  match split_last (m_open m) with
  | Some (rest, (tl, wtl)) =>
      Mgr rest (tl :: m_evicted m) (upd tl (m_fs m tl ++ w_end F wtl) (m_fs m)) (m_err m)
  | None => m
  end.

(* the "cache miss: evict LRU if at capacity" branch of getOutputHandlerFor; c is lruFileHandlerCapacity.
   Pipes are kept in a plain map and never evicted. *)
Definition make_room (md : mode) (c : nat) (F : fmt) (t : target) (m : mgr) : mgr :=
  match lookup t (m_open m) with
  | Some _ => m
  | None =>
      if is_pipe md then m
      else if Nat.leb c (List.length (m_open m)) then evict_last F m else m
  end.

(* getOutputHandlerFor: result = (writer state of the handler for t, the OTHER open handlers, evicted set, store). *)
Definition acquire (md : mode) (c : nat) (F : fmt) (t : target) (m : mgr)
  : wstate * list (target * wstate) * list target * fstore :=
  let m1 := make_room md c F t m in
  match lookup t (m_open m1) with
  | Some ws => (ws, drop t (m_open m1), m_evicted m1, m_fs m1)          (* hit: lruTouch moves it to the head *)
  | None =>
      let use_append := is_append md || mem t (m_evicted m1) in
      (WFresh, m_open m1, rm t (m_evicted m1),
       if use_append then m_fs m1 else upd t [] (m_fs m1))               (* O_APPEND vs O_TRUNC; FRESH writer *)
  end.

Definition write_rec (md : mode) (c : nat) (F : fmt) (t : target) (r : record) (m : mgr) : mgr :=
  if m_err m then m else
  let '(ws, rest, ev, fs) := acquire md c F t m in
  match w_rec F ws r with
  | Some (its, ws') => Mgr ((t, ws') :: rest) ev (upd t (fs t ++ its) fs) false
  | None => Mgr ((t, ws) :: rest) ev fs true
  end.

Definition write_str (md : mode) (c : nat) (F : fmt) (t : target) (s : bytes) (m : mgr) : mgr :=
  if m_err m then m else
  let '(ws, rest, ev, fs) := acquire md c F t m in
  Mgr ((t, ws) :: rest) ev (upd t (fs t ++ [IRaw s]) fs) false.

Definition op := (target * event)%type.

Definition step (md : mode) (c : nat) (F : fmt) (m : mgr) (o : op) : mgr :=
  match o with
  | (t, ERec r) => write_rec md c F t r m
  | (t, EStr s) => write_str md c F t s m
  end.

Definition run (md : mode) (c : nat) (F : fmt) (ops : list op) (fs0 : fstore) : mgr :=
  fold_left (step md c F) ops (init fs0).

(* Close(): every open handler gets its end-of-stream text *)
Definition close_all (F : fmt) (m : mgr) : fstore :=
  fold_left (fun fs '(t, ws) => upd t (fs t ++ w_end F ws) fs) (m_open m) (m_fs m).

Definition final (md : mode) (c : nat) (F : fmt) (ops : list op) (fs0 : fstore) : fstore :=
  close_all F (run md c F ops fs0).

(* ---------------------------------------------------------------- what was routed where *)
Fixpoint events_of (t : target) (ops : list op) : list event :=
  match ops with
  | [] => []
  | (t', e) :: r => if beqb t t' then e :: events_of t r else events_of t r
  end.

Definition targets_of (ops : list op) : list target := map fst ops.
Definition touched (t : target) (ops : list op) : bool := mem t (targets_of ops).

Fixpoint recs_of_events (evs : list event) : list record :=
  match evs with [] => [] | ERec r :: t => r :: recs_of_events t | EStr _ :: t => recs_of_events t end.
Fixpoint strs_of_events (evs : list event) : list bytes :=
  match evs with [] => [] | EStr s :: t => s :: strs_of_events t | ERec _ :: t => strs_of_events t end.

Fixpoint recs_of (its : list item) : list record :=
  match its with [] => [] | IRec r _ :: t => r :: recs_of t | _ :: t => recs_of t end.
Fixpoint raws_of (its : list item) : list bytes :=
  match its with [] => [] | IRaw s :: t => s :: raws_of t | _ :: t => raws_of t end.

Definition is_header (i : item) : bool := match i with IHeader _ => true | _ => false end.
Definition is_open (i : item) : bool := match i with IOpen => true | _ => false end.
Definition is_close (i : item) : bool := match i with IClose => true | _ => false end.
Definition is_blank (i : item) : bool := match i with IBlank => true | _ => false end.
Definition count (p : item -> bool) (l : list item) : nat := List.length (filter p l).

(* the distinct targets of a history *)
Definition distinct (l : list target) : list target := nodup (list_eq_dec Ascii.ascii_dec) l.

(* what the file holds before the run's own output: kept in append mode, truncated otherwise *)
Definition base (md : mode) (fs0 : fstore) (t : target) : list item :=
  if is_append md then fs0 t else [].

Definition stateless (F : fmt) : bool := match F with FDkvp | FNidx | FJsonl => true | _ => false end.

(* ---------------------------------------------------------------- bytes *)
Fixpoint join (sep : bytes) (l : list bytes) : bytes :=
  match l with
  | [] => []
  | [x] => x
  | x :: t => x ++ sep ++ join sep t
  end.

Definition nl : bytes := ["010"%char].
Definition tab : bytes := ["009"%char].
Definition q (s : bytes) : bytes := """"%char :: s ++ [""""%char].

(* renderings for field values over a safe alphabet (no separators, quotes, backslashes, control bytes):
   the codecs themselves are the subject of C01 *)
Definition render_rec (F : fmt) (r : record) (pad : nat) : bytes :=
  match F with
  | FDkvp => join (B ",") (map (fun kv => fst kv ++ B "=" ++ snd kv) r) ++ nl
  | FNidx => join (B " ") (values r) ++ nl
  | FCsv => join (B ",") (values r ++ repeat [] pad) ++ nl
  | FTsv => join tab (values r ++ repeat [] pad) ++ nl
  | FXtab =>
      let w := fold_left (fun m kv => Nat.max m (List.length (fst kv))) r 1 in
      flat_map (fun kv => fst kv ++ B " " ++ repeat " "%char (w - List.length (fst kv)) ++ snd kv ++ nl) r
  | FJsonl =>
      match r with
      | [] => B "{}" ++ nl
      | _ => B "{" ++ join (B ", ") (map (fun kv => q (fst kv) ++ B ": " ++ q (snd kv)) r) ++ B "}" ++ nl
      end
  | FJson =>
      match r with
      | [] => B "{}"
      | _ => B "{" ++ nl ++ join (B "," ++ nl) (map (fun kv => B "  " ++ q (fst kv) ++ B ": " ++ q (snd kv)) r) ++ nl ++ B "}"
      end
  end.

Definition render_item (F : fmt) (i : item) : bytes :=
  match i with
  | IRaw s => s
  | IBlank => nl
  | IHeader ks => join (match F with FTsv => tab | _ => B "," end) ks ++ nl
  | IRec r pad => render_rec F r pad
  | IOpen => B "[" ++ nl
  | ISep => B "," ++ nl
  | IClose => nl ++ B "]" ++ nl
  end.

Definition render (F : fmt) (its : list item) : bytes := flat_map (render_item F) its.

(* ---------------------------------------------------------------- the tee verb in a chain (pkg/transformers/tee.go)
   A chain stage either forwards the downstream-done flag to its upstream neighbour (HandleDefaultDownstreamDone:
   cat, head, split ...) or drops it (tee: "select {case <-inputDownstreamDoneChannel: break; default: break}").
   The record reader may stop early only if the flag reaches it. *)
Inductive verb := VCat | VHead (n : nat) | VTee.

Definition forwards_done (v : verb) : bool := match v with VTee => false | _ => true end.
Definition raises_done (v : verb) : bool := match v with VHead _ => true | _ => false end.

(* can a done flag raised somewhere in [vs] (first stage first) reach the reader? *)
Fixpoint done_reaches_reader (vs : list verb) : bool :=
  match vs with
  | [] => false
  | v :: r => raises_done v || (forwards_done v && done_reaches_reader r)
  end.

(* number of records the reader delivers: everything, unless the flag can reach it, in which case it may stop
   after [cut] records (scheduler's choice) *)
Definition delivered (vs : list verb) (cut : nat) (recs : list record) : list record :=
  if done_reaches_reader vs then firstn cut recs else recs.

(* (records written to tee targets in chain order, main output) *)
Fixpoint chain (vs : list verb) (recs : list record) : list (list record) * list record :=
  match vs with
  | [] => ([], recs)
  | VCat :: r => chain r recs
  | VHead n :: r => chain r (firstn n recs)
  | VTee :: r => let '(ts, out) := chain r recs in (recs :: ts, out)
  end.

Definition run_chain (vs : list verb) (cut : nat) (recs : list record) := chain vs (delivered vs cut recs).

(* ---------------------------------------------------------------- recency order (specification of "least recently used")
   distinct targets of a history, most recently used first *)
Definition recency (ts : list target) : list target := fold_left (fun acc t => t :: rm t acc) ts [].

(* ---------------------------------------------------------------- THE manager (file_output_handlers.go after the repair).
   Eviction = FileOutputHandler.suspend(): flushes and closes the file but keeps the handler with its record writer
   (suspendableRecordWriter holds back the end-of-stream call, so no closing text is written and PPRINT keeps its batch);
   a later use = resume(): re-opens the file in append mode and continues with that writer; Close() also finishes
   the handlers that are still suspended.  Tied to the implementation by Harness.chk. *)
Record mgrR := MgrR {
  r_open : list (target * wstate);
  r_susp : list (target * wstate);      (* suspended writers of evicted targets *)
  r_fs : fstore;
  r_err : bool
}.

Definition evict_lastR (m : mgrR) : mgrR :=
  match split_last (r_open m) with
  | Some (rest, x) => MgrR rest (x :: r_susp m) (r_fs m) (r_err m)
  | None => m
  end.

Definition make_roomR (md : mode) (c : nat) (t : target) (m : mgrR) : mgrR :=
  match lookup t (r_open m) with
  | Some _ => m
  | None => if is_pipe md then m else if Nat.leb c (List.length (r_open m)) then evict_lastR m else m
  end.

Definition acquireR (md : mode) (c : nat) (t : target) (m : mgrR)
  : wstate * list (target * wstate) * list (target * wstate) * fstore :=
  let m1 := make_roomR md c t m in
  match lookup t (r_open m1) with
  | Some ws => (ws, drop t (r_open m1), r_susp m1, r_fs m1)
  | None =>
      match lookup t (r_susp m1) with
      | Some ws => (ws, r_open m1, drop t (r_susp m1), r_fs m1)                 (* re-open in append mode, resume the writer *)
      | None => (WFresh, r_open m1, r_susp m1, if is_append md then r_fs m1 else upd t [] (r_fs m1))
      end
  end.

Definition stepR (md : mode) (c : nat) (F : fmt) (m : mgrR) (o : op) : mgrR :=
  if r_err m then m else
  let '(t, e) := o in
  let '(ws, rest, susp, fs) := acquireR md c t m in
  match e with
  | ERec r =>
      match w_rec F ws r with
      | Some (its, ws') => MgrR ((t, ws') :: rest) susp (upd t (fs t ++ its) fs) false
      | None => MgrR ((t, ws) :: rest) susp fs true
      end
  | EStr s => MgrR ((t, ws) :: rest) susp (upd t (fs t ++ [IRaw s]) fs) false
  end.

Definition runR (md : mode) (c : nat) (F : fmt) (ops : list op) (fs0 : fstore) : mgrR :=
  fold_left (stepR md c F) ops (MgrR [] [] fs0 false).

Definition finalR (md : mode) (c : nat) (F : fmt) (ops : list op) (fs0 : fstore) : fstore :=
  let m := runR md c F ops fs0 in
  close_all F (Mgr (r_open m ++ r_susp m) [] (r_fs m) (r_err m)).
