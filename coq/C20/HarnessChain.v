(* C20 correspondence harness, chains with SEVERAL fan-out stages upstream of an early-exit verb:
   tee A then put 'tee > B, $*' then head -n k   (and tee A then tee B then head -n k):
   every fan-out stage between the first tee verb and the head must receive EVERY record (the tee verb does not forward the
   downstream-done flag, so the reader never stops, and it keeps passing records on); the main output is the first k records.
   case = (k, delivered-cut, number of input records, records seen in each fan-out file in chain order, records in the main output) *)
From Miller Require Import Base.Record C20.Model.
Open Scope Z_scope.

Fixpoint all_eq (a : list (list record)) (b : list Z) : bool :=
  match a, b with
  | [], [] => true
  | x :: a', y :: b' => (Z.of_nat (List.length x) =? y) && all_eq a' b'
  | _, _ => false
  end.

Definition chk_chain_n (c : Z * Z * Z * list Z * Z) : bool :=
  let '(k, cut, total, fan_seen, main_seen) := c in
  let recs := repeat ([] : record) (Z.to_nat total) in
  let '(fans, out) := run_chain (repeat VTee (List.length fan_seen) ++ [VHead (Z.to_nat k)]) (Z.to_nat cut) recs in
  all_eq fans fan_seen && (Z.of_nat (List.length out) =? main_seen).
