(* C20 -- the record writers of pkg/output as STREAMING state machines (what a FileOutputHandler's writer goroutine
   does record by record, and at end of stream), each proved equal to C01's whole-document writer function:
        sdoc W (records) = C01.write_<format> ... records
   so that, composed with Generic.one_document_generic, every fan-out target holds  base ++ C01.write_<format>(records routed
   to it), and C01's round-trip theorems apply to each target file.

   State of each machine = the fields of the Go struct:
     DKVP / NIDX / JSON Lines / JSON without list wrap      none
     JSON with list wrap    wroteAnyRecords
     CSV / TSV              firstRecordKeys (None until the first record; needToPrintHeader = not headerless and None)
     csvlite                lastJoinedHeader (option), justWroteEmptyLine
     XTAB                   onFirst
     PPRINT                 batch (reversed) with lastJoinedHeader
     markdown (streaming)   lastJoinedHeader ("" = header to be written)
     markdown (aligned)     numBatchesOutput = 0 ?, batch with batchJoinedHeader *)
From Miller Require Import Base.Bytes Base.Record C20.Model C20.Generic.
From Miller Require Import C01.Model C01.ModelXtab C01.ModelLite C01.ModelPprint C01.ModelMd C01.ModelJson C01.ProofsUtil.
Open Scope list_scope.

Notation cjoin := C01.Model.join.

Notation recs_events recs := (map ERec recs) (only parsing).

(* ---------------------------------------------------------------- generic: a writer given by "text from a state" *)
Section Ref.
  Variable W : swriter.
  (* whole-document function from a state, None on writer error *)
  Variable ref : sw_st W -> list record -> option bytes.
  Hypothesis ref_nil : forall s, ref s [] = Some (sw_end W s).
  Hypothesis ref_cons : forall s r t,
    ref s (r :: t) = match sw_rec W s r with
                     | Some (o, s1) => match ref s1 t with Some d => Some (o ++ d) | None => None end
                     | None => None
                     end.

  Lemma srun_ref s recs :
    match srun W s (recs_events recs) with Some (o, s') => Some (o ++ sw_end W s') | None => None end = ref s recs.
  Proof.
    revert s. induction recs as [|r t IH]; intros s; cbn.
    - now rewrite ref_nil.
    - rewrite ref_cons. destruct (sw_rec W s r) as [[o s1]|]; [|reflexivity]. rewrite <- IH.
      destruct (srun W s1 (recs_events t)) as [[o' s2]|]; [|reflexivity]. now rewrite app_assoc.
  Qed.

  Lemma sdoc_ref recs : sdoc W (recs_events recs) = ref (sw_init W) recs.
  Proof. unfold sdoc. apply srun_ref. Qed.
End Ref.

(* ---------------------------------------------------------------- line-oriented stateless writers *)
Definition line_writer (line : record -> bytes) : swriter :=
  SW unit tt (fun _ r => Some (line r, tt)) (fun _ => []).

Lemma line_writer_doc line recs : sdoc (line_writer line) (recs_events recs) = Some (List.concat (map line recs)).
Proof.
  rewrite (sdoc_ref (line_writer line) (fun _ recs => Some (List.concat (map line recs)))); [reflexivity|reflexivity|].
  intros s r t. cbn. reflexivity.
Qed.

(* record_writer_dkvp.go *)
Definition W_dkvp (ofs ops : bytes) (crlf : bool) := line_writer (fun r => dkvp_line ofs ops r ++ ors_of crlf).
(* record_writer_nidx.go *)
Definition W_nidx (ofs : bytes) (crlf : bool) := line_writer (fun r => cjoin ofs (values r) ++ ors_of crlf).
(* record_writer_json_jsonl.go writeWithoutListWrap (--ojsonl; --ojson --no-jlistwrap, with or without --jvstack) *)
Definition W_json_nowrap (multiline : bool) := line_writer (fun r => json_obj multiline r ++ [LF]).

Lemma concat_map_unlines {A} (f : A -> bytes) ors l : List.concat (map (fun x => f x ++ ors) l) = unlines ors (map f l).
Proof. unfold unlines. now rewrite map_map. Qed.

Theorem W_dkvp_doc ofs ops crlf recs :
  sdoc (W_dkvp ofs ops crlf) (recs_events recs) = Some (write_dkvp ofs ops crlf recs).
Proof. unfold W_dkvp. rewrite line_writer_doc. unfold write_dkvp. now rewrite concat_map_unlines. Qed.

Theorem W_nidx_doc ofs crlf recs : sdoc (W_nidx ofs crlf) (recs_events recs) = Some (write_nidx ofs crlf recs).
Proof. unfold W_nidx. rewrite line_writer_doc. unfold write_nidx. now rewrite concat_map_unlines. Qed.

Theorem W_json_nowrap_doc ml recs : sdoc (W_json_nowrap ml) (recs_events recs) = Some (write_json ml false recs).
Proof. unfold W_json_nowrap. rewrite line_writer_doc. reflexivity. Qed.

(* ---------------------------------------------------------------- JSON with the outer list (--ojson, --jlistwrap) *)
Definition W_json_wrap (multiline : bool) : swriter :=
  SW bool false
     (fun wrote r => Some ((if wrote then "," :: [LF] else B "[" ++ [LF]) ++ json_obj multiline r, true))
     (fun wrote => if wrote then [LF] ++ B "]" ++ [LF] else []).     (* context.JSONHadBrackets is false for a handler *)

Lemma join_cons_concat sep x (l : list bytes) : cjoin sep (x :: l) = x ++ List.concat (map (fun y => sep ++ y) l).
Proof.
  revert x. induction l as [|y l IH]; intros x; [cbn; now rewrite app_nil_r|].
  rewrite join_cons2, IH. cbn [map List.concat]. now rewrite <- !app_assoc.
Qed.

Definition json_wrap_ref (ml : bool) (wrote : bool) (recs : list record) : option bytes :=
  Some (if wrote
        then List.concat (map (fun r => ("," :: [LF]) ++ json_obj ml r) recs) ++ [LF] ++ B "]" ++ [LF]
        else write_json ml true recs).

Theorem W_json_wrap_doc ml recs : sdoc (W_json_wrap ml) (recs_events recs) = Some (write_json ml true recs).
Proof.
  rewrite (sdoc_ref (W_json_wrap ml) (json_wrap_ref ml)); [reflexivity| |].
  - intros [|]; reflexivity.
  - intros s r t. unfold json_wrap_ref. cbn [sw_rec W_json_wrap]. f_equal. destruct s.
    + cbn [map List.concat]. now rewrite <- !app_assoc.
    + unfold write_json. cbn [map]. rewrite join_cons_concat. rewrite map_map. now rewrite <- !app_assoc.
Qed.

(* ---------------------------------------------------------------- CSV and TSV: header once, "unset fill", schema-change error *)
Section HeaderRows.
  Variable headerless : bool.
  Variable row : list bytes -> bytes.      (* one line with its line ending *)

  Definition hr_rec (st : option (list bytes)) (r : record) : option (bytes * option (list bytes)) :=
    let first := match st with Some f => f | None => keys r end in
    if check_keys first r
    then Some ((match st with None => if headerless then [] else row first | Some _ => [] end)
               ++ row (pad_values first (values r)), Some first)
    else None.
  Definition W_hr : swriter := SW (option (list bytes)) None hr_rec (fun _ => []).

  Definition hr_ref (st : option (list bytes)) (recs : list record) : option bytes :=
    match st with
    | Some first =>
        if forallb (check_keys first) recs then Some (List.concat (map (fun r => row (pad_values first (values r))) recs)) else None
    | None =>
        match rows_of recs with
        | None => None
        | Some (hdr, rows) => Some (List.concat (map row ((if headerless || is_nil recs then [] else [hdr]) ++ rows)))
        end
    end.

  Lemma W_hr_doc recs : sdoc W_hr (recs_events recs) = hr_ref None recs.
  Proof.
    apply (sdoc_ref W_hr hr_ref).
    - intros [f|]; [reflexivity|]. unfold hr_ref. cbn. now rewrite orb_true_r.
    - intros s r t. cbn [sw_rec W_hr]. unfold hr_rec, hr_ref. destruct s as [first|].
      + cbn [forallb]. destruct (check_keys first r); [|reflexivity]. cbn [andb].
        destruct (forallb (check_keys first) t); [|reflexivity]. cbn [map List.concat]. reflexivity.
      + unfold rows_of. cbn [forallb]. rewrite check_keys_refl. cbn [andb is_nil].
        destruct (forallb (check_keys (keys r)) t); [|reflexivity]. rewrite orb_false_r.
        cbn [map]. destruct headerless; cbn [app map List.concat orb]; now rewrite map_map, <- ?app_assoc.
  Qed.
End HeaderRows.

(* record_writer_csv.go *)
Definition csv_row (qa crlf : bool) (comma : ascii) (cells : list bytes) : bytes :=
  csv_row_q crlf crlf comma (map (miller_q qa comma) cells).
Definition W_csv (headerless qa crlf : bool) (comma : ascii) := W_hr headerless (csv_row qa crlf comma).

Theorem W_csv_doc headerless qa crlf comma recs :
  sdoc (W_csv headerless qa crlf comma) (recs_events recs) = write_csv headerless qa crlf comma recs.
Proof.
  unfold W_csv. rewrite W_hr_doc. unfold hr_ref, write_csv. destruct (rows_of recs) as [[hdr rows]|]; [|reflexivity].
  f_equal. unfold csv_text_q, csv_row. now rewrite map_map.
Qed.

(* record_writer_tsv.go *)
Definition W_tsv (headerless crlf : bool) := W_hr headerless (fun cells => tsv_line cells ++ ors_of crlf).

Theorem W_tsv_doc headerless crlf recs : sdoc (W_tsv headerless crlf) (recs_events recs) = write_tsv headerless crlf recs.
Proof.
  unfold W_tsv. rewrite W_hr_doc. unfold hr_ref, write_tsv. destruct (rows_of recs) as [[hdr rows]|]; [|reflexivity].
  f_equal. rewrite concat_map_unlines. f_equal. rewrite map_app. f_equal.
  destruct (headerless || is_nil recs); reflexivity.
Qed.

(* ---------------------------------------------------------------- csvlite: schema change = blank line + new header *)
Definition lite_rec (ofs : bytes) (headerless : bool) (ors : bytes) (st : option bytes * bool) (r : record)
  : option (bytes * (option bytes * bool)) :=
  let '(last, jwel) := st in
  if is_nil r then Some (unlines ors (if jwel then [] else [[]]), (Some [], true))
  else
    let j := cjoin [","%char] (keys r) in
    let changed := match last with None => true | Some l => negb (beqb l j) end in
    let sep := match last with Some _ => if changed && negb jwel then [[]] else [] | None => [] end in
    let hdr := if changed && negb headerless then [cjoin ofs (keys r)] else [] in
    Some (unlines ors (sep ++ hdr ++ [cjoin ofs (values r)]), (Some j, false)).
Definition W_csvlite (ofs : bytes) (headerless crlf : bool) : swriter :=
  SW (option bytes * bool) (None, false) (lite_rec ofs headerless (ors_of crlf)) (fun _ => []).

Lemma unlines_app ors a b : unlines ors (a ++ b) = unlines ors a ++ unlines ors b.
Proof. unfold unlines. now rewrite map_app, concat_app. Qed.

Theorem W_csvlite_doc ofs headerless crlf recs :
  sdoc (W_csvlite ofs headerless crlf) (recs_events recs) = Some (write_csvlite ofs headerless crlf recs).
Proof.
  rewrite (sdoc_ref (W_csvlite ofs headerless crlf)
             (fun st recs => Some (unlines (ors_of crlf) (csvlite_lines ofs headerless (fst st) (snd st) recs)))); [reflexivity| |].
  - intros [l j]. reflexivity.
  - intros [last jwel] r t. cbn [sw_rec W_csvlite fst snd]. unfold lite_rec. cbn [csvlite_lines].
    destruct (is_nil r).
    + cbn [fst snd]. now rewrite unlines_app.
    + cbn [fst snd]. now rewrite !unlines_app, <- !app_assoc.
Qed.

(* ---------------------------------------------------------------- XTAB: an empty line BETWEEN records *)
Definition W_xtab (w : bytes -> nat) (ops : bytes) (right : bool) : swriter :=
  SW bool true
     (fun on_first r => Some ((if on_first then [] else [LF]) ++ unlines [LF] (xtab_rec_lines w ops right r), false))
     (fun _ => []).

Theorem W_xtab_doc w ops right recs : sdoc (W_xtab w ops right) (recs_events recs) = Some (write_xtab w ops right recs).
Proof.
  rewrite (sdoc_ref (W_xtab w ops right)
             (fun on_first recs =>
                Some (if on_first then write_xtab w ops right recs
                      else unlines [LF] (List.concat (map (fun r' => [] :: xtab_rec_lines w ops right r') recs))))); [reflexivity| |].
  - intros [|]; reflexivity.
  - intros s r t. cbn [sw_rec W_xtab]. f_equal. destruct s.
    + unfold write_xtab, xtab_all_lines. now rewrite unlines_app.
    + cbn [map List.concat]. rewrite unlines_app. unfold unlines at 1. cbn [map List.concat]. now rewrite <- !app_assoc.
Qed.

(* ---------------------------------------------------------------- PPRINT: batches of records with the same joined keys; a batch is written
   when the keys change (followed by an ORS if it wrote anything) and at end of stream *)
Section Batch.
  Variable f : list record -> bytes.        (* writeHeterogenousList *)
  Variable ors : bytes.

  Definition pp_rec (st : option (list record * bytes)) (r : record) : option (bytes * option (list record * bytes)) :=
    let j := cjoin [","%char] (keys r) in
    match st with
    | None => Some ([], Some ([r], j))
    | Some (cur, curj) =>
        if beqb j curj then Some ([], Some (r :: cur, curj))
        else Some (f (rev cur) ++ (if forallb is_nil (rev cur) then [] else ors), Some ([r], j))
    end.
  Definition W_batch : swriter :=
    SW (option (list record * bytes)) None pp_rec (fun st => match st with Some (cur, _) => f (rev cur) | None => [] end).

  Lemma pp_batches_nonempty cur curj recs : pp_batches cur curj recs <> [].
  Proof. revert cur curj. induction recs as [|r t IH]; intros; cbn; [discriminate|]. destruct (beqb _ curj); [apply IH|discriminate]. Qed.

  Lemma pp_texts_cons b t : t <> [] -> pp_texts f ors (b :: t) = f b ++ (if forallb is_nil b then [] else ors) ++ pp_texts f ors t.
  Proof. destruct t; [congruence|reflexivity]. Qed.

  Definition batch_ref (st : option (list record * bytes)) (recs : list record) : option bytes :=
    Some (match st with
          | None => pp_texts f ors (pp_all_batches recs)
          | Some (cur, curj) => pp_texts f ors (pp_batches cur curj recs)
          end).

  Lemma W_batch_doc recs : sdoc W_batch (recs_events recs) = Some (pp_texts f ors (pp_all_batches recs)).
  Proof.
    rewrite (sdoc_ref W_batch batch_ref); [reflexivity| |].
    - intros [[cur curj]|]; reflexivity.
    - intros s r t. cbn [sw_rec W_batch]. unfold pp_rec, batch_ref. destruct s as [[cur curj]|].
      + cbn [pp_batches]. destruct (beqb (cjoin [","%char] (keys r)) curj); [reflexivity|].
        rewrite pp_texts_cons by apply pp_batches_nonempty. now rewrite <- !app_assoc.
      + reflexivity.
  Qed.
End Batch.

(* record_writer_pprint.go, all of --right --barred-output --headerless-pprint-output *)
Definition pp_block (w : bytes -> nat) (right barred headerless crlf : bool) (b : list record) : bytes :=
  if barred then barred_batch_text w right headerless (ors_of crlf) b
  else unlines (ors_of crlf) (pp_batch_lines_g w right headerless b).
Definition W_pprint (w : bytes -> nat) (right barred headerless crlf : bool) : swriter :=
  W_batch (pp_block w right barred headerless crlf) (ors_of crlf).

Theorem W_pprint_doc w right barred headerless crlf recs :
  sdoc (W_pprint w right barred headerless crlf) (recs_events recs) = Some (write_pprint_g w right barred headerless crlf recs).
Proof. unfold W_pprint. rewrite W_batch_doc. reflexivity. Qed.

(* ---------------------------------------------------------------- markdown, streaming (default) *)
Definition md_rec (ors : bytes) (last : bytes) (r : record) : option (bytes * bytes) :=
  let cur := cjoin [","%char] (keys r) in
  let changed := negb (is_nil last) && negb (beqb cur last) in
  let last1 := if changed then [] else last in
  Some (unlines ors ((if changed then [[]] else [])
                     ++ (if is_nil last1 then [md_row (keys r); md_row (map (fun _ => DASHES) r)] else [])
                     ++ [md_row (map md_escape (values r))]),
        if is_nil last1 then cur else last1).
Definition W_md (crlf : bool) : swriter := SW bytes [] (md_rec (ors_of crlf)) (fun _ => []).

Theorem W_md_doc w crlf recs : sdoc (W_md crlf) (recs_events recs) = Some (write_markdown w false crlf recs).
Proof.
  rewrite (sdoc_ref (W_md crlf) (fun last recs => Some (unlines (ors_of crlf) (md_lines last recs)))); [reflexivity| |].
  - reflexivity.
  - intros last r t. cbn [sw_rec W_md]. unfold md_rec. cbn [md_lines]. now rewrite !unlines_app, <- !app_assoc.
Qed.

(* markdown --omd-aligned: batches as in PPRINT; every batch but the first is preceded by an ORS *)
Section MdAligned.
  Variable w : bytes -> nat.
  Variable ors : bytes.
  Definition mda_st := (bool * option (list record * bytes))%type.      (* numBatchesOutput = 0, batch *)
  Definition mda_flush (first : bool) (cur : list record) : bytes :=
    unlines ors ((if first then [] else [[]]) ++ md_batch_lines w (rev cur)).
  Definition mda_rec (st : mda_st) (r : record) : option (bytes * mda_st) :=
    let j := cjoin [","%char] (keys r) in
    match st with
    | (first, None) => Some ([], (first, Some ([r], j)))
    | (first, Some (cur, curj)) =>
        if beqb j curj then Some ([], (first, Some (r :: cur, curj)))
        else Some (mda_flush first cur, (false, Some ([r], j)))
    end.
  Definition W_mda : swriter :=
    SW mda_st (true, None) mda_rec (fun st => match st with (first, Some (cur, _)) => mda_flush first cur | _ => [] end).

  Lemma W_mda_doc recs : sdoc W_mda (recs_events recs) = Some (unlines ors (md_aligned_lines w true (pp_all_batches recs))).
  Proof.
    rewrite (sdoc_ref W_mda
               (fun st recs => Some (unlines ors (match st with
                                                  | (first, None) => md_aligned_lines w first (pp_all_batches recs)
                                                  | (first, Some (cur, curj)) => md_aligned_lines w first (pp_batches cur curj recs)
                                                  end)))); [reflexivity| |].
    - intros [first [[cur curj]|]]; cbn; [|reflexivity]. unfold mda_flush. now rewrite app_nil_r.
    - intros [first [[cur curj]|]] r t; cbn [sw_rec W_mda]; unfold mda_rec.
      + cbn [pp_batches]. destruct (beqb (cjoin [","%char] (keys r)) curj); [reflexivity|].
        cbn [md_aligned_lines]. unfold mda_flush. now rewrite !unlines_app, <- !app_assoc.
      + reflexivity.
  Qed.
End MdAligned.

Theorem W_mda_doc' w crlf recs :
  sdoc (W_mda w (ors_of crlf)) (recs_events recs) = Some (write_markdown w true crlf recs).
Proof. apply W_mda_doc. Qed.
