(* REGENERATED on every run from pkg/scan/type.go (TypeNames) and pkg/mlrval/mlrval_infer.go (normalInferrerTable, leadingZeroAsIntInferrerTable, the SetInferrer setters) via 'implrun scan-tables'. *)
Require Import String List.
Import ListNotations.
Open Scope string_scope.
Definition gen_type_names : list (nat * string) := [(0, "string"); (1, "decint"); (2, "lzdecint"); (3, "octint"); (4, "lzoctint"); (5, "hexint"); (6, "binint"); (7, "float?")].
Definition gen_normal_table : list string := ["inferString"; "inferDecimalInt"; "inferString"; "inferOctalInt"; "inferString"; "inferHexInt"; "inferBinaryInt"; "inferMaybeFloat"].
Definition gen_octal_table : list string := ["inferString"; "inferDecimalInt"; "inferLeadingZeroDecimalIntAsInt"; "inferOctalInt"; "inferFromLeadingZeroOctalIntAsInt"; "inferHexInt"; "inferBinaryInt"; "inferMaybeFloat"].
Definition gen_selectors : list (string * string) := [("default", "inferNormally"); ("S", "inferString"); ("A", "inferWithIntAsFloat"); ("O", "inferWithOctalAsInt")].
Definition gen_examples : list (string * nat) := [("abc", 0); ("123", 1); ("0899", 2); ("0o377", 3); ("0377", 4); ("0xcafe", 5); ("0b1011", 6); ("1.5", 7)].
