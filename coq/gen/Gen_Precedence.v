(* REGENERATED on every run from pkg/parsing/mlr.bnf (the grammar parser.go is generated from): the operator
   chain PrecedenceChainStart ... PrecedenceChainEnd, lowest precedence first; operators per level in production order;
   associativity from left/right recursion of the productions. *)
From Miller Require Import Base.Bytes.
Inductive assoc := AssocL | AssocR | AssocBroken.
Inductive opkind := KBinary | KUnary | KTernary.
Definition gen_levels : list (list bytes * assoc * opkind) := [
  ([(B "?:")], AssocR, KTernary);
  ([(B "||")], AssocL, KBinary);
  ([(B "^^")], AssocL, KBinary);
  ([(B "&&")], AssocL, KBinary);
  ([(B "=~"); (B "!=~"); (B "=="); (B "!="); (B "<=>")], AssocL, KBinary);
  ([(B ">"); (B ">="); (B "<"); (B "<=")], AssocL, KBinary);
  ([(B "|")], AssocL, KBinary);
  ([(B "^")], AssocL, KBinary);
  ([(B "&")], AssocL, KBinary);
  ([(B "<<"); (B ">>"); (B ">>>")], AssocL, KBinary);
  ([(B "+"); (B "-"); (B ".+"); (B ".-")], AssocL, KBinary);
  ([(B "*"); (B "/"); (B "//"); (B "%"); (B ".*"); (B "./"); (B ".//")], AssocL, KBinary);
  ([(B ".")], AssocL, KBinary);
  ([(B "+"); (B "-"); (B ".+"); (B ".-"); (B "!"); (B "~")], AssocR, KUnary);
  ([(B "??")], AssocL, KBinary);
  ([(B "???")], AssocL, KBinary);
  ([(B "**")], AssocR, KBinary)
].
