(* REGENERATED on every run by harness/py/checks/c18.py: `mlr help list-verbs` and, per verb, the outcomes of the argument-list grammar
   and of the degenerate record streams (see coq/C18/VerbTable.v). *)
From Miller Require Import Base.Bytes.
Open Scope N_scope.
Definition gen_verbs : list bytes := [(B "altkv"); (B "bar"); (B "bootstrap"); (B "bootstrap-ci"); (B "case"); (B "cat"); (B "check"); (B "clean-whitespace"); (B "count-distinct"); (B "count"); (B "count-similar"); (B "cut"); (B "decimate"); (B "describe"); (B "fill-down"); (B "fill-empty"); (B "filter"); (B "flatten"); (B "format-values"); (B "fraction"); (B "gap"); (B "grep"); (B "group-by"); (B "group-like"); (B "gsub"); (B "having-fields"); (B "head"); (B "histogram"); (B "json-parse"); (B "json-stringify"); (B "join"); (B "label"); (B "latin1-to-utf8"); (B "least-frequent"); (B "merge-fields"); (B "most-frequent"); (B "nest"); (B "nothing"); (B "put"); (B "rank"); (B "regularize"); (B "remove-empty-columns"); (B "rename"); (B "reorder"); (B "repeat"); (B "reshape"); (B "sample"); (B "sec2gmtdate"); (B "sec2gmt"); (B "seqgen"); (B "shuffle"); (B "skip-trivial-records"); (B "sort"); (B "sort-within-records"); (B "sparkline"); (B "sparsify"); (B "split"); (B "ssub"); (B "stats1"); (B "stats2"); (B "step"); (B "sub"); (B "summary"); (B "surv"); (B "tac"); (B "tail"); (B "tee"); (B "template"); (B "top"); (B "utf8-to-latin1"); (B "unflatten"); (B "uniq"); (B "unspace"); (B "unsparsify")].
Definition gen_verb_rows : list (bytes * N * N * N * list N) := [
((B "altkv"), 23, 8, 14, [80]);
((B "bar"), 39, 12, 26, [80]);
((B "bootstrap"), 27, 12, 14, [80]);
((B "bootstrap-ci"), 39, 11, 26, [80; 80]);
((B "case"), 39, 8, 27, [80; 80; 80; 80]);
((B "cat"), 39, 17, 19, [80; 80; 80]);
((B "check"), 23, 8, 14, [80]);
((B "clean-whitespace"), 39, 12, 22, [80; 80; 80; 80; 80]);
((B "count-distinct"), 39, 19, 20, []);
((B "count"), 35, 16, 17, [80; 80]);
((B "count-similar"), 24, 3, 21, []);
((B "cut"), 39, 12, 27, []);
((B "decimate"), 39, 14, 20, [80; 80; 80; 80; 80]);
((B "describe"), 30, 9, 17, [80; 80; 80; 80]);
((B "fill-down"), 39, 13, 25, [80]);
((B "fill-empty"), 31, 12, 17, [80; 80]);
((B "filter"), 39, 8, 31, []);
((B "flatten"), 31, 16, 14, [80]);
((B "format-values"), 39, 10, 27, [80; 80]);
((B "fraction"), 39, 9, 30, []);
((B "gap"), 31, 13, 15, [80; 80; 80]);
((B "grep"), 35, 14, 21, []);
((B "group-by"), 23, 8, 15, []);
((B "group-like"), 23, 8, 14, [80]);
((B "gsub"), 35, 7, 28, []);
((B "having-fields"), 39, 18, 21, []);
((B "head"), 31, 15, 13, [80; 80; 80]);
((B "histogram"), 39, 5, 33, [80]);
((B "json-parse"), 31, 14, 15, [80; 80]);
((B "json-stringify"), 35, 15, 17, [80; 80; 80]);
((B "join"), 39, 7, 32, []);
((B "label"), 23, 8, 15, []);
((B "latin1-to-utf8"), 23, 8, 14, [80]);
((B "least-frequent"), 39, 12, 25, [80; 80]);
((B "merge-fields"), 38, 6, 32, []);
((B "most-frequent"), 39, 12, 25, [80; 80]);
((B "nest"), 38, 6, 32, []);
((B "nothing"), 23, 8, 14, [80]);
((B "put"), 39, 14, 25, []);
((B "rank"), 35, 13, 22, []);
((B "regularize"), 23, 8, 14, [80]);
((B "remove-empty-columns"), 23, 8, 14, [80]);
((B "rename"), 24, 3, 21, []);
((B "reorder"), 38, 14, 24, []);
((B "repeat"), 31, 16, 15, []);
((B "reshape"), 39, 7, 32, []);
((B "sample"), 24, 0, 24, []);
((B "sec2gmtdate"), 23, 7, 15, [80]);
((B "sec2gmt"), 38, 10, 23, [80; 80; 80; 80; 80]);
((B "seqgen"), 39, 19, 19, [80]);
((B "shuffle"), 23, 8, 14, [80]);
((B "skip-trivial-records"), 23, 8, 14, [80]);
((B "sort"), 39, 18, 21, []);
((B "sort-within-records"), 35, 18, 15, [80; 80]);
((B "sparkline"), 27, 12, 15, []);
((B "sparsify"), 31, 16, 14, [80]);
((B "split"), 39, 11, 24, [80; 80; 80; 80]);
((B "ssub"), 35, 7, 28, []);
((B "stats1"), 39, 7, 32, []);
((B "stats2"), 32, 0, 32, []);
((B "step"), 39, 7, 30, [80; 80]);
((B "sub"), 35, 7, 28, []);
((B "summary"), 34, 10, 22, [80; 80]);
((B "surv"), 31, 13, 17, [80]);
((B "tac"), 23, 8, 14, [80]);
((B "tail"), 31, 15, 13, [80; 80; 80]);
((B "tee"), 31, 11, 20, []);
((B "template"), 34, 12, 22, []);
((B "top"), 39, 13, 25, [80]);
((B "utf8-to-latin1"), 23, 8, 14, [80]);
((B "unflatten"), 31, 16, 14, [80]);
((B "uniq"), 39, 16, 23, []);
((B "unspace"), 35, 17, 15, [80; 80; 80]);
((B "unsparsify"), 30, 15, 14, [80])
].
